"""Abstract tissues and their realisation as fresh forsys objects.

An abstract tissue (AT) is a plain dict, JSON-able except for complex numbers which are stored as
[re, im]:

    J : {jid(str): [x, y]}            junction positions in the pre-image plane
    I : [ {a, b, L, R, T, phi} ]      interfaces: from junction a to junction b, cell L on the left
                                      and R on the right when walking a->b (None = outside),
                                      tension T, phi = signed included angle of the pre-image arc
                                      (0 = straight segment)
    C : {cid(str): [[iidx, dir], ...]} cells as counter-clockwise cycles of signed interfaces
                                      (dir=+1: walked a->b)

Everything downstream identifies a *physical* interface by its index in I and a physical cell by
its cid, never by forsys ids.
"""
import cmath
import itertools
import math

import numpy as np


# ---------------------------------------------------------------------------------------------
# complex maps (Moebius, conjugation, similarity) with push-forward of directions
# ---------------------------------------------------------------------------------------------
class CMap:
    """ops: list of ["mob", [ar,ai],[br,bi],[cr,ci],[dr,di]] | ["conj"] | ["aff", [mr,mi],[tr,ti]]"""

    def __init__(self, ops=()):
        self.ops = [list(o) for o in ops]

    @staticmethod
    def _c(p):
        return complex(p[0], p[1])

    def __call__(self, z):
        for o in self.ops:
            if o[0] == "mob":
                a, b, c, d = (self._c(x) for x in o[1:5])
                z = (a * z + b) / (c * z + d)
            elif o[0] == "conj":
                z = z.conjugate()
            elif o[0] == "aff":
                z = self._c(o[1]) * z + self._c(o[2])
            else:
                raise ValueError(o)
        return z

    def push(self, z, t):
        """image of the direction t (complex, any length) attached at z; returns a unit complex"""
        for o in self.ops:
            if o[0] == "mob":
                a, b, c, d = (self._c(x) for x in o[1:5])
                t = t * (a * d - b * c) / (c * z + d) ** 2
                z = (a * z + b) / (c * z + d)
            elif o[0] == "conj":
                t = t.conjugate()
                z = z.conjugate()
            elif o[0] == "aff":
                t = t * self._c(o[1])
                z = self._c(o[1]) * z + self._c(o[2])
            t = t / abs(t)
        return t / abs(t)

    def orientation(self):
        """+1 if orientation preserving"""
        return -1 if sum(1 for o in self.ops if o[0] == "conj") % 2 else 1

    def then(self, *ops):
        return CMap(self.ops + [list(o) for o in ops])


def mob(c, a=1.0, b=0.0, d=1.0):
    def p(x):
        x = complex(x)
        return [x.real, x.imag]
    return ["mob", p(a), p(b), p(c), p(d)]


def aff(m=1.0, t=0.0):
    m = complex(m)
    t = complex(t)
    return ["aff", [m.real, m.imag], [t.real, t.imag]]


def rot(theta):
    return aff(cmath.exp(1j * theta), 0.0)


CONJ = ["conj"]


# ---------------------------------------------------------------------------------------------
# pre-image interface geometry
# ---------------------------------------------------------------------------------------------
def zc(p):
    return complex(p[0], p[1])


def arc_point(a, b, phi, s):
    """point at parameter s in [0,1] on the arc from a to b with signed included angle phi
    (phi>0 bulges to the right of a->b, i.e. turns left); phi=0 straight"""
    if phi == 0:
        return a + s * (b - a)
    # centre on the perpendicular bisector
    m = (a + b) / 2
    ch = b - a
    c = m + 1j * ch / (2 * math.tan(phi / 2))
    return c + (a - c) * cmath.exp(1j * phi * s)


def arc_tangent(a, b, phi, at_a):
    """unit direction pointing from the end junction along the interface"""
    ch = (b - a) / abs(b - a)
    if at_a:
        return ch * cmath.exp(-1j * phi / 2)
    return -ch * cmath.exp(1j * phi / 2)


# ---------------------------------------------------------------------------------------------
# Voronoi bases
# ---------------------------------------------------------------------------------------------
def hex_sites(nx, ny, jitter=0.0, pattern=0):
    """deterministic jittered hexagonal patch; the jitter is a fixed function of (site index, pattern)"""
    pts = []
    idx = 0
    for j in range(ny):
        for i in range(nx):
            x = i + 0.5 * (j % 2)
            y = j * math.sqrt(3) / 2
            # low-discrepancy, deterministic pseudo-jitter (no RNG state)
            u = math.modf(math.sin((idx + 1) * 12.9898 + pattern * 78.233) * 43758.5453)[0]
            v = math.modf(math.sin((idx + 1) * 39.3468 + pattern * 11.135) * 24634.6345)[0]
            pts.append((x + jitter * u, y + jitter * v))
            idx += 1
    return np.array(pts, float)


def voronoi_at(sites, keep=None, margin=0.35):
    """abstract tissue of the bounded Voronoi regions of `sites` whose corners stay within `margin`
    of the sites' bounding box (optionally only the sites in keep)"""
    import scipy.spatial as sp
    with np.errstate(all="ignore"):
        vor = sp.Voronoi(sites)
    V = vor.vertices
    lo, hi = sites.min(axis=0), sites.max(axis=0)
    kept = {}
    for si, ri in enumerate(vor.point_region):
        reg = vor.regions[ri]
        if len(reg) >= 3 and -1 not in reg:
            x = V[reg, 0]
            y = V[reg, 1]
            if margin is not None and (x.min() < lo[0] - margin or x.max() > hi[0] + margin or y.min() < lo[1] - margin or y.max() > hi[1] + margin):
                continue
            with np.errstate(all="ignore"):
                area = 0.5 * (np.dot(x, np.roll(y, -1)) - np.dot(y, np.roll(x, -1)))
            reg = list(reg) if area > 0 else list(reg)[::-1]
            kept[int(si)] = [int(v) for v in reg]
    if keep is not None:
        kept = {s: r for s, r in kept.items() if s in keep}
    ridge_T = {}
    ridge_sites = {}
    for (p, q), rv in zip(vor.ridge_points, vor.ridge_vertices):
        if -1 in rv:
            continue
        key = tuple(sorted(int(v) for v in rv))
        ridge_T[key] = float(np.hypot(*(sites[p] - sites[q])))
        ridge_sites[key] = (int(p), int(q))
    I = []
    idx = {}
    C = {}
    for cid in sorted(kept):
        reg = kept[cid]
        cyc = []
        n = len(reg)
        for i in range(n):
            u, v = reg[i], reg[(i + 1) % n]
            key = tuple(sorted((u, v)))
            if key not in idx:
                p, q = ridge_sites[key]
                other = q if p == cid else p
                # interface stored from key[0] to key[1]; cell on the left of u->v is cid (CCW)
                if u == key[0]:
                    L, R = cid, (other if other in kept else None)
                else:
                    L, R = (other if other in kept else None), cid
                idx[key] = len(I)
                I.append({"a": str(key[0]), "b": str(key[1]), "L": L, "R": R, "T": ridge_T[key], "phi": 0.0})
            cyc.append([idx[key], 1 if u == key[0] else -1])
        C[str(cid)] = cyc
    used = sorted({int(i["a"]) for i in I} | {int(i["b"]) for i in I})
    J = {str(v): [float(V[v, 0]), float(V[v, 1])] for v in used}
    for it in I:
        it["L"] = None if it["L"] is None else str(it["L"])
        it["R"] = None if it["R"] is None else str(it["R"])
    return {"J": J, "I": I, "C": C}


def sub_tissue(at, cells):
    """restriction of an abstract tissue to a subset of its cells (other cells become outside)"""
    cells = {str(c) for c in cells}
    keep_i = sorted({ii for c in cells for ii, _ in at["C"][c]})
    remap = {old: new for new, old in enumerate(keep_i)}
    I = []
    for old in keep_i:
        it = dict(at["I"][old])
        if it["L"] not in cells:
            it["L"] = None
        if it["R"] not in cells:
            it["R"] = None
        I.append(it)
    C = {c: [[remap[ii], dr] for ii, dr in at["C"][c]] for c in sorted(cells, key=lambda s: int(s))}
    used = {it["a"] for it in I} | {it["b"] for it in I}
    J = {j: at["J"][j] for j in at["J"] if j in used}
    return {"J": J, "I": I, "C": C}


def add_lens(at, ii, phi=0.8):
    """squeeze a lens-shaped cell into the straight interface ii (both sides cells): ii is replaced by two arcs with included angle
    phi that share BOTH end junctions, each with tension T / (2 cos(phi/2)) so that their resultant at either end is the tension
    of the replaced interface (force balance at every junction is untouched). The new cell gets the next free cell id."""
    it = at["I"][ii]
    assert it["phi"] == 0.0 and it["L"] is not None and it["R"] is not None
    new = str(max(int(c) for c in at["C"]) + 1)
    Tn = it["T"] / (2.0 * math.cos(phi / 2.0))
    I = [dict(x) for x in at["I"]]
    I[ii] = {"a": it["a"], "b": it["b"], "L": it["L"], "R": new, "T": Tn, "phi": -phi}     # bulges to the left: side of L
    jj = len(I)
    I.append({"a": it["a"], "b": it["b"], "L": new, "R": it["R"], "T": Tn, "phi": phi})     # bulges to the right: side of R
    C = {c: [[(jj if (i == ii and c == it["R"]) else i), d] for i, d in cyc] for c, cyc in at["C"].items()}
    C[new] = [[jj, 1], [ii, -1]]
    return {"J": dict(at["J"]), "I": I, "C": C}


def cell_adjacency(at):
    adj = {c: set() for c in at["C"]}
    for it in at["I"]:
        if it["L"] is not None and it["R"] is not None:
            adj[it["L"]].add(it["R"])
            adj[it["R"]].add(it["L"])
    return adj


def connected_subsets(at, min_size=1, max_size=None):
    """all connected subsets of the cells of `at` (connectivity through shared interfaces)"""
    adj = cell_adjacency(at)
    cells = sorted(at["C"], key=lambda s: int(s))
    out = []
    n = len(cells)
    max_size = max_size or n
    for r in range(min_size, max_size + 1):
        for S in itertools.combinations(cells, r):
            S_ = set(S)
            st = [S[0]]
            seen = {S[0]}
            while st:
                x = st.pop()
                for y in adj[x] & S_:
                    if y not in seen:
                        seen.add(y)
                        st.append(y)
            if seen == S_:
                out.append(list(S))
    return out


def polygons_at(polys, tensions=None):
    """abstract tissue from a list of polygons (lists of (x,y), any orientation) that tile a region:
    points of other polygons lying on a side split it (T-junctions)."""
    pts = sorted({(float(p[0]), float(p[1])) for poly in polys for p in poly})

    def on_seg(p, a, b):
        ax, ay = a
        bx, by = b
        px, py = p
        if p == a or p == b:
            return False
        dx, dy = bx - ax, by - ay
        t = ((px - ax) * dx + (py - ay) * dy) / (dx * dx + dy * dy)
        if not (1e-12 < t < 1 - 1e-12):
            return False
        return math.hypot(ax + t * dx - px, ay + t * dy - py) < 1e-9
    jid = {p: str(i) for i, p in enumerate(pts)}
    I = []
    idx = {}
    C = {}
    owners = {}
    cycles = {}
    for cid, poly in enumerate(polys):
        poly = [(float(p[0]), float(p[1])) for p in poly]
        ar = 0.5 * sum(poly[i][0] * poly[(i + 1) % len(poly)][1] - poly[(i + 1) % len(poly)][0] * poly[i][1] for i in range(len(poly)))
        if ar < 0:
            poly = poly[::-1]
        out = []
        n = len(poly)
        for i in range(n):
            a, b = poly[i], poly[(i + 1) % n]
            mids = [p for p in pts if on_seg(p, a, b)]
            mids.sort(key=lambda p: math.hypot(p[0] - a[0], p[1] - a[1]))
            out += [a] + mids
        cycles[cid] = out
        for i in range(len(out)):
            u, v = out[i], out[(i + 1) % len(out)]
            owners.setdefault(tuple(sorted((u, v))), []).append((cid, u))
    for cid in sorted(cycles):
        out = cycles[cid]
        cyc = []
        for i in range(len(out)):
            u, v = out[i], out[(i + 1) % len(out)]
            key = tuple(sorted((u, v)))
            if key not in idx:
                L = R = None
                for (c2, u2) in owners[key]:
                    if u2 == key[0]:
                        L = str(c2)
                    else:
                        R = str(c2)
                idx[key] = len(I)
                T = 1.0 if tensions is None else tensions(key)
                I.append({"a": jid[key[0]], "b": jid[key[1]], "L": L, "R": R, "T": T, "phi": 0.0})
            cyc.append([idx[key], 1 if u == key[0] else -1])
        C[str(cid)] = cyc
    used = {it["a"] for it in I} | {it["b"] for it in I}
    J = {jid[p]: [p[0], p[1]] for p in pts if jid[p] in used}
    return {"J": J, "I": I, "C": C}


def square_polys(nx, ny):
    return [[(i, j), (i + 1, j), (i + 1, j + 1), (i, j + 1)] for j in range(ny) for i in range(nx)]


def brick_polys(nx, ny):
    polys = []
    for j in range(ny):
        off = 0.5 * (j % 2)
        for i in range(nx):
            x0 = i + off
            polys.append([(x0, j), (x0 + 1, j), (x0 + 1, j + 1), (x0, j + 1)])
    return polys


def hex_polys(nx, ny):
    polys = []
    r = 1.0
    for j in range(ny):
        for i in range(nx):
            cx = math.sqrt(3) * r * (i + 0.5 * (j % 2))
            cy = 1.5 * r * j
            polys.append([(round(cx + r * math.cos(math.pi / 6 + k * math.pi / 3), 12), round(cy + r * math.sin(math.pi / 6 + k * math.pi / 3), 12)) for k in range(6)])
    return polys


def fan_polys(n, ring=True):
    """n triangles around a centre (n-fold junction) surrounded by a ring of n quadrilaterals"""
    polys = []
    P = [(math.cos(2 * math.pi * i / n + 0.05), math.sin(2 * math.pi * i / n + 0.05)) for i in range(n)]
    Q = [(2.2 * math.cos(2 * math.pi * i / n + 0.05), 2.2 * math.sin(2 * math.pi * i / n + 0.05)) for i in range(n)]
    for i in range(n):
        polys.append([(0.0, 0.0), P[i], P[(i + 1) % n]])
    if ring:
        for i in range(n):
            polys.append([P[i], Q[i], Q[(i + 1) % n], P[(i + 1) % n]])
    return polys


# ---------------------------------------------------------------------------------------------
# structure of an abstract tissue (reference side; no forsys involved)
# ---------------------------------------------------------------------------------------------
def junction_cells(at):
    """{jid: set of cells having the junction on their cycle}"""
    jc = {j: set() for j in at["J"]}
    for it in at["I"]:
        for c in (it["L"], it["R"]):
            if c is not None:
                jc[it["a"]].add(c)
                jc[it["b"]].add(c)
    return jc


def junction_degree(at):
    deg = {j: 0 for j in at["J"]}
    for it in at["I"]:
        deg[it["a"]] += 1
        deg[it["b"]] += 1
    return deg


def merged_interfaces(at):
    """Maximal paths of abstract interfaces between vertices of degree >= 3 (in a sub-tissue two
    border interfaces of one cell can meet at a vertex of degree 2 and form one interface).
    Returns list of paths; a path = list of [iidx, dir] walked from one junction to the other."""
    deg = junction_degree(at)
    inc = {j: [] for j in at["J"]}
    for ii, it in enumerate(at["I"]):
        inc[it["a"]].append((ii, 1))
        inc[it["b"]].append((ii, -1))
    used = set()
    paths = []
    for j in sorted(at["J"], key=lambda s: int(s)):
        if deg[j] < 3:
            continue
        for (ii, dr) in inc[j]:
            if ii in used:
                continue
            path = [[ii, dr]]
            used.add(ii)
            cur = at["I"][ii]["b"] if dr == 1 else at["I"][ii]["a"]
            while deg[cur] == 2:
                nxt = [(i2, d2) for (i2, d2) in inc[cur] if i2 != path[-1][0]]
                if not nxt:
                    break
                i2, d2 = nxt[0]
                if i2 in used:
                    break
                path.append([i2, d2])
                used.add(i2)
                cur = at["I"][i2]["b"] if d2 == 1 else at["I"][i2]["a"]
            paths.append(path)
    return paths


def internal_interfaces(at):
    """indices of abstract interfaces that the statement calls internal: both sides are cells of the
    tissue and at least one end junction belongs to >= 3 cells (interior points belong to exactly
    the two cells)."""
    jc = junction_cells(at)
    out = []
    for ii, it in enumerate(at["I"]):
        if it["L"] is None or it["R"] is None:
            continue
        if len(jc[it["a"]]) >= 3 or len(jc[it["b"]]) >= 3:
            out.append(ii)
    return out


# ---------------------------------------------------------------------------------------------
# realisation
# ---------------------------------------------------------------------------------------------
def sample_counts(at, k):
    """k: int | list (per interface) | ["mod3", k0, k1, k2]"""
    n = len(at["I"])
    if isinstance(k, int):
        return [k] * n
    if isinstance(k, (list, tuple)) and k and k[0] == "mod3":
        return [k[1 + (i % 3)] for i in range(n)]
    assert len(k) == n
    return list(k)


def coincident_two_point(at, k):
    """True if two interfaces between the same pair of junctions would both be realised without interior points (the same pair
    of vertices twice: not a planar mesh, outside every statement)"""
    ks = sample_counts(at, k)
    seen = set()
    for ii, it in enumerate(at["I"]):
        if ks[ii] == 0:
            key = frozenset((it["a"], it["b"]))
            if key in seen:
                return True
            seen.add(key)
    return False


def geometry(at, k=3, cmap=None):
    """image coordinates: returns (jpos {jid: complex}, ipts [list of complex incl. both ends a->b])"""
    cmap = cmap or CMap()
    ks = sample_counts(at, k)
    jpos = {j: cmap(zc(p)) for j, p in at["J"].items()}
    ipts = []
    for ii, it in enumerate(at["I"]):
        a, b = zc(at["J"][it["a"]]), zc(at["J"][it["b"]])
        kk = ks[ii]
        pts = [jpos[it["a"]]]
        for m in range(1, kk + 1):
            pts.append(cmap(arc_point(a, b, it["phi"], m / (kk + 1))))
        pts.append(jpos[it["b"]])
        ipts.append(pts)
    return jpos, ipts


def tangents(at, cmap=None):
    """analytic unit tangents (complex) of every interface at both ends, pointing away from the junction:
    list of (t_at_a, t_at_b)"""
    cmap = cmap or CMap()
    out = []
    for it in at["I"]:
        a, b = zc(at["J"][it["a"]]), zc(at["J"][it["b"]])
        ta = cmap.push(a, arc_tangent(a, b, it["phi"], True))
        tb = cmap.push(b, arc_tangent(a, b, it["phi"], False))
        out.append((ta, tb))
    return out


class Labelling:
    """how the realisation numbers and stores things (environment choices, not data)"""

    def __init__(self, vmap=None, emap=None, cmap_ids=None, cell_order=None, shifts=None, flips=None, eflip=None, vorder=None, eorder=None):
        self.eorder = eorder          # order in which mesh edges are INSERTED into the dict: None (natural) | "id" | "rev" | ["rot", n]
        self.vorder = vorder          # order in which vertices are INSERTED into the dict: None (natural) | "id" (ascending new id) | "rev" | ["rot", n]
        self.vmap = vmap              # ["id"] | ["rev"] | ["gap", mul, add] | ["off", n] | ["swap", i, j] | ["perm", [...]]
        self.emap = emap
        self.cmap_ids = cmap_ids
        self.cell_order = cell_order  # list of cids (insertion order) or None
        self.shifts = shifts or {}    # {cid: shift}
        self.flips = flips or []      # cids stored clockwise
        self.eflip = eflip            # None | "all" | "alt": which SmallEdges are stored v2->v1

    @staticmethod
    def from_json(d):
        d = d or {}
        return Labelling(d.get("vmap"), d.get("emap"), d.get("cids"), d.get("order"), d.get("shifts"), d.get("flips"), d.get("eflip"), d.get("vorder"), d.get("eorder"))


def _idmap(spec, n):
    if spec is None or spec[0] == "id":
        return list(range(n))
    if spec[0] == "rev":
        return [n - 1 - i for i in range(n)]
    if spec[0] == "gap":
        return [i * spec[1] + spec[2] for i in range(n)]
    if spec[0] == "off":
        return [i + spec[1] for i in range(n)]
    if spec[0] == "swap":
        m = list(range(n))
        i, j = spec[1] % n, spec[2] % n
        m[i], m[j] = m[j], m[i]
        return m
    if spec[0] == "perm":
        p = list(spec[1])
        return p + list(range(len(p), n))
    if spec[0] == "rot":
        return [(i + spec[1]) % n for i in range(n)]
    raise ValueError(spec)


def realise(at, k=3, cmap=None, lab=None, post=None):
    """Build fresh forsys objects the way the parsers do: vertices, then mesh edges, then cells in
    insertion order. Returns (vertices, edges, cells, info)."""
    import forsys.vertex as fv
    import forsys.edge as fe
    import forsys.cell as fc
    lab = lab if isinstance(lab, Labelling) else Labelling.from_json(lab)
    jpos, ipts = geometry(at, k, cmap)
    if post is not None:
        jpos, ipts = post(jpos, ipts)
    jids = sorted(at["J"], key=lambda s: int(s))
    nat = {}
    coords = []
    for j in jids:
        nat[("j", j)] = len(coords)
        coords.append(jpos[j])
    chains_nat = []
    for ii, pts in enumerate(ipts):
        it = at["I"][ii]
        ch = [nat[("j", it["a"])]]
        for m in range(1, len(pts) - 1):
            ch.append(len(coords))
            coords.append(pts[m])
        ch.append(nat[("j", it["b"])])
        chains_nat.append(ch)
    nv = len(coords)
    vm = _idmap(lab.vmap, nv)
    vertices = {}
    # vertices are inserted in increasing natural order (parsers insert in file order) unless the labelling says otherwise:
    # the order of the dict is what every 'for v in vertices.values()' of the library sees
    ins = list(range(nv))
    if lab.vorder == "id":
        ins.sort(key=lambda i: vm[i])
    elif lab.vorder == "rev":
        ins.reverse()
    elif isinstance(lab.vorder, (list, tuple)) and lab.vorder and lab.vorder[0] == "rot":
        r_ = lab.vorder[1] % max(nv, 1)
        ins = ins[r_:] + ins[:r_]
    for i in ins:
        vertices[vm[i]] = fv.Vertex(vm[i], float(coords[i].real), float(coords[i].imag))
    segs = []
    for ch in chains_nat:
        for m in range(len(ch) - 1):
            segs.append((ch[m], ch[m + 1]))
    em = _idmap(lab.emap, len(segs))
    edges = {}
    eins = list(range(len(segs)))
    if lab.eorder == "id":
        eins.sort(key=lambda n: em[n])
    elif lab.eorder == "rev":
        eins.reverse()
    elif isinstance(lab.eorder, (list, tuple)) and lab.eorder and lab.eorder[0] == "rot":
        r_ = lab.eorder[1] % max(len(segs), 1)
        eins = eins[r_:] + eins[:r_]
    for n in eins:
        u, v = segs[n]
        flip = lab.eflip == "all" or (lab.eflip == "alt" and n % 2 == 1)
        if flip:
            u, v = v, u
        edges[em[n]] = fe.SmallEdge(em[n], vertices[vm[u]], vertices[vm[v]])
    cids = sorted(at["C"], key=lambda s: int(s))
    cm = _idmap(lab.cmap_ids, len(cids))
    cellid = {c: cm[i] for i, c in enumerate(cids)}
    order = [str(c) for c in (lab.cell_order or cids)]
    cells = {}
    for c in order:
        cyc = []
        for ii, dr in at["C"][c]:
            ch = chains_nat[ii] if dr == 1 else chains_nat[ii][::-1]
            cyc += ch[:-1]
        if c in [str(x) for x in lab.flips]:
            cyc = cyc[::-1]
        s = int(lab.shifts.get(c, lab.shifts.get(int(c), 0)) if lab.shifts else 0) % len(cyc)
        cyc = cyc[s:] + cyc[:s]
        cells[cellid[c]] = fc.Cell(cellid[c], [vertices[vm[v]] for v in cyc])
    info = {
        "jvid": {j: vm[nat[("j", j)]] for j in jids},
        "chain": [[vm[v] for v in ch] for ch in chains_nat],
        "cellid": cellid,
        "coords": {vm[i]: coords[i] for i in range(nv)},
    }
    return vertices, edges, cells, info


def frame_of(vertices, edges, cells, fid=0, time=0.0, gt=False):
    import forsys.frames as ff
    return ff.Frame(fid, vertices, edges, cells, time=time, gt=gt)


def match_big_edges(frame, info, at):
    """map physical interfaces to forsys big edges.
    Returns {big_edge_id: [[iidx, dir], ...]}: the abstract interfaces each big edge runs through
    (several when border interfaces merged at a degree-2 vertex), dir=+1 if walked a->b."""
    seg_of = {}
    for ii, ch in enumerate(info["chain"]):
        for m in range(len(ch) - 1):
            seg_of[(ch[m], ch[m + 1])] = (ii, 1)
            seg_of[(ch[m + 1], ch[m])] = (ii, -1)
    # after resampling, interior ids are a subsequence: identify by consecutive membership
    member = {}
    for ii, ch in enumerate(info["chain"]):
        for pos, v in enumerate(ch[1:-1], 1):
            member[v] = (ii, pos)
    out = {}
    ends = {}
    for ii, ch in enumerate(info["chain"]):
        ends.setdefault((ch[0], ch[-1]), []).append((ii, 1))
        ends.setdefault((ch[-1], ch[0]), []).append((ii, -1))
    for beid, be in frame.big_edges.items():
        ids = be.get_vertices_ids()
        path = []
        i = 0
        ok = True
        while i < len(ids) - 1:
            u, v = ids[i], ids[i + 1]
            if (u, v) in seg_of:
                ii, dr = seg_of[(u, v)]
            elif v in member:
                ii = member[v][0]
                ch = info["chain"][ii]
                dr = 1 if (u == ch[0] or (u in member and member[u][0] == ii and member[u][1] < member[v][1])) else -1
            elif u in member:
                ii = member[u][0]
                ch = info["chain"][ii]
                dr = 1 if v == ch[-1] else -1
            else:
                cand = ends.get((u, v), [])
                if len(cand) != 1:
                    ok = False
                    break
                ii, dr = cand[0]
            if not path or path[-1][0] != ii:
                path.append([ii, dr])
            i += 1
        out[beid] = path if ok else None
    return out


def lens_at(phi=0.8):
    """two cells A (above) and B (below) with a lens-shaped cell squeezed between them: the interfaces A|lens and B|lens
    share BOTH end junctions (exact circular arcs)"""
    J = {"0": [-1.0, 0.0], "1": [1.0, 0.0], "2": [-3.0, 0.0], "3": [3.0, 0.0], "4": [3.0, 2.0], "5": [-3.0, 2.0], "6": [-3.0, -2.0], "7": [3.0, -2.0]}
    def I(a, b, L, R, phi=0.0, T=1.0):
        return {"a": a, "b": b, "L": L, "R": R, "T": T, "phi": phi}
    Is = [I("0", "1", "0", "2", -phi), I("0", "1", "2", "1", phi), I("2", "0", "0", "1"), I("1", "3", "0", "1"),
          I("3", "4", "0", None), I("4", "5", "0", None), I("5", "2", "0", None),
          I("2", "6", "1", None), I("6", "7", "1", None), I("7", "3", "1", None)]
    C = {"0": [[2, 1], [0, 1], [3, 1], [4, 1], [5, 1], [6, 1]],
         "1": [[7, 1], [8, 1], [9, 1], [3, -1], [1, -1], [2, -1]],
         "2": [[1, 1], [0, -1]]}
    return {"J": J, "I": Is, "C": C}
