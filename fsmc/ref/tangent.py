"""Reference force-balance system of an abstract tissue: analytic unit tangents, rows and columns
as the statement of C02 defines them. Independent of forsys."""
import numpy as np

from .. import tissue as T


def reference_system(at, cmap=None, ignore_four=False):
    """cols: abstract interface indices (internal ones, ascending); rows: junction ids that get an
    x- and a y-equation; M: (2*len(rows), len(cols)) with the outward unit tangents."""
    cmap = cmap or T.CMap()
    cols = T.internal_interfaces(at)
    colpos = {ii: n for n, ii in enumerate(cols)}
    jc = T.junction_cells(at)
    tg = T.tangents(at, cmap)
    ends = {j: [] for j in at["J"]}
    for ii in cols:
        it = at["I"][ii]
        ends[it["a"]].append((ii, tg[ii][0]))
        ends[it["b"]].append((ii, tg[ii][1]))
    rows = []
    for j in sorted(at["J"], key=int):
        n = len(ends[j])
        if len(jc[j]) >= 3 and n >= 3 and not (ignore_four and n >= 4):
            rows.append(j)
    with np.errstate(all="ignore"):
        M = np.zeros((2 * len(rows), len(cols)))
        for r, j in enumerate(rows):
            for ii, t in ends[j]:
                M[2 * r, colpos[ii]] = t.real
                M[2 * r + 1, colpos[ii]] = t.imag
    return {"cols": cols, "rows": rows, "M": M, "ends": ends}


def true_tensions(at, cols):
    return np.array([at["I"][ii]["T"] for ii in cols], float)


def nullity(M, tol=1e-9):
    with np.errstate(all="ignore"):
        if M.size == 0:
            return M.shape[1]
        s = np.linalg.svd(M, compute_uv=False)
        rank = int((s > tol * max(1.0, s[0])).sum())
        return M.shape[1] - rank
