"""Reference for C05: the augmented system of the statement, KKT certificate of non-negative least
squares, an independent Lawson-Hanson active-set solver, uniqueness test. Independent of forsys."""
import numpy as np


def augment(M, b=None):
    """[[M, 1], [1..1, 0]] z = [b; n]  (z = tensions followed by one multiplier)"""
    with np.errstate(all="ignore"):
        r, n = M.shape
        A = np.zeros((r + 1, n + 1))
        A[:r, :n] = M
        A[:r, n] = 1.0
        A[r, :n] = 1.0
        rhs = np.zeros(r + 1)
        if b is not None:
            rhs[:r] = np.asarray(b, float).ravel()
        rhs[r] = n
    return A, rhs


def lawson_hanson(A, b, maxit=None, tol=1e-11):
    """min ||Az-b||, z>=0 (classic active-set algorithm, written from the textbook)"""
    with np.errstate(all="ignore"):
        m, n = A.shape
        maxit = maxit or 10 * n + 50
        P = np.zeros(n, bool)
        x = np.zeros(n)
        w = A.T @ (b - A @ x)
        scale = max(1.0, np.abs(A).max() * max(1.0, np.abs(b).max()))
        it = 0
        while (~P).any() and w[~P].max() > tol * scale and it < maxit:
            it += 1
            cand = np.where(~P)[0]
            j = cand[np.argmax(w[cand])]
            P[j] = True
            while True:
                s = np.zeros(n)
                sol, *_ = np.linalg.lstsq(A[:, P], b, rcond=None)
                s[P] = sol
                if s[P].min() > 0:
                    break
                mask = P & (s <= 0)
                alpha = np.min(x[mask] / (x[mask] - s[mask]))
                x = x + alpha * (s - x)
                P &= x > tol
                x[~P] = 0.0
                it += 1
                if it > maxit:
                    break
            x = s
            w = A.T @ (b - A @ x)
        return x


def kkt(A, b, z, tol):
    """returns dict(ok, worst, ...) for min ||Az-b||^2 s.t. z>=0 at z"""
    with np.errstate(all="ignore"):
        g = A.T @ (A @ z - b)
        neg = float(max(0.0, -z.min())) if z.size else 0.0
        gneg = float(max(0.0, -g.min())) if g.size else 0.0
        comp = float(np.abs(g * z).max()) if g.size else 0.0
        return {"ok": neg <= tol and gneg <= tol and comp <= tol, "neg": neg, "gneg": gneg, "comp": comp, "g": g}


def best_multiplier(A, b, x):
    """the non-negative multiplier that minimises the residual for fixed tensions x"""
    with np.errstate(all="ignore"):
        a = A[:, -1]
        r = A[:, :-1] @ x - b
        den = float(a @ a)
        lam = 0.0 if den == 0 else max(0.0, -float(a @ r) / den)
        return lam


def unique_minimiser(A, z, g, tol):
    """sufficient test: columns that are positive or have zero gradient are linearly independent"""
    with np.errstate(all="ignore"):
        S = (z > tol) | (np.abs(g) <= tol)
        if not S.any():
            return True
        AS = A[:, S]
        if AS.shape[1] > AS.shape[0]:
            return False
        s = np.linalg.svd(AS, compute_uv=False)
        return bool(s.min() > 1e-8 * max(1.0, s.max()))


def consistent(M, b=None, tol=1e-7):
    """is there a non-negative x with M x = b and sum(x) = n (i.e. a zero-residual solution WITHOUT help of the multiplier)?"""
    with np.errstate(all="ignore"):
        r, n = M.shape
        A = np.vstack([M, np.ones(n)])
        rhs = np.append(np.zeros(r) if b is None else np.asarray(b, float).ravel(), float(n))
        x = lawson_hanson(A, rhs)
        return bool(np.linalg.norm(A @ x - rhs) <= tol * max(1.0, n))
