"""Reference rasteriser: Voronoi tissue -> one-pixel-wide, 8-connected skeleton with minimal junction pixels
(Bresenham ridges, Zhang-Suen thinning, removal of simple points), plus the true topology of the drawing."""
import numpy as np


def neighbours(img, y, x):
    return [img[y - 1, x], img[y - 1, x + 1], img[y, x + 1], img[y + 1, x + 1], img[y + 1, x], img[y + 1, x - 1], img[y, x - 1], img[y - 1, x - 1]]


def transitions(nb):
    n = nb + nb[:1]
    return sum((a == 0 and b == 1) for a, b in zip(n, n[1:]))


def zhang_suen(img):
    img = img.copy().astype(np.uint8)
    changed = True
    while changed:
        changed = False
        for step in (0, 1):
            todel = []
            ys, xs = np.nonzero(img)
            for y, x in zip(ys, xs):
                if y == 0 or x == 0 or y == img.shape[0] - 1 or x == img.shape[1] - 1:
                    continue
                nb = neighbours(img, y, x)
                B = sum(nb)
                if not (2 <= B <= 6) or transitions(nb) != 1:
                    continue
                P2, P3, P4, P5, P6, P7, P8, P9 = nb
                if step == 0:
                    if P2 * P4 * P6 != 0 or P4 * P6 * P8 != 0:
                        continue
                else:
                    if P2 * P4 * P8 != 0 or P2 * P6 * P8 != 0:
                        continue
                todel.append((y, x))
            for y, x in todel:
                img[y, x] = 0
            if todel:
                changed = True
    return img


def _n8_components(nb):
    idx = [i for i in range(8) if nb[i]]
    if not idx:
        return 0
    parent = {i: i for i in idx}

    def find(a):
        while parent[a] != a:
            a = parent[a]
        return a
    for i in idx:
        j = (i + 1) % 8
        if nb[j]:
            parent[find(i)] = find(j)
    for a, b in [(0, 2), (2, 4), (4, 6), (6, 0)]:
        if nb[a] and nb[b]:
            parent[find(a)] = find(b)
    return len({find(i) for i in idx})


def _n4_bg_components(nb):
    bg = [1 - v for v in nb]
    comps = 0
    seen = set()
    for start in (0, 2, 4, 6):
        if bg[start] and start not in seen:
            comps += 1
            st = [start]
            while st:
                i = st.pop()
                if i in seen:
                    continue
                seen.add(i)
                for j in ((i + 1) % 8, (i - 1) % 8):
                    if bg[j] and j not in seen:
                        st.append(j)
    return comps


def minimal(img):
    """remove simple points that are not end points until stable (minimal 8-connectivity)"""
    img = img.copy()
    changed = True
    while changed:
        changed = False
        ys, xs = np.nonzero(img)
        for y, x in zip(ys, xs):
            if y == 0 or x == 0 or y == img.shape[0] - 1 or x == img.shape[1] - 1:
                continue
            nb = neighbours(img, y, x)
            if sum(nb) < 2:
                continue
            if _n8_components(nb) == 1 and _n4_bg_components(nb) == 1:
                img[y, x] = 0
                changed = True
    return img


def raster(sites, scale, pad=6, minimal_junctions=True, style="ridges"):
    """returns (binary skeleton image, reference topology dict). style "ridges": the Voronoi ridges are drawn as digital lines and
    thinned; style "labels": every pixel gets the label of its nearest site and the skeleton is the set of pixels whose right or lower
    neighbour carries another label (what a watershed / label-boundary segmentation delivers), cleaned to minimal 8-connectivity:
    its junctions are L-shaped pixel triples more often than single pixels"""
    import cv2
    import scipy.ndimage as ndi
    import scipy.spatial as sp
    with np.errstate(all="ignore"):
        vor = sp.Voronoi(sites)
        lo = sites.min(0) - 0.3
        hi = sites.max(0) + 0.3
        kept = [int(si) for si, ri in enumerate(vor.point_region) if len(vor.regions[ri]) >= 3 and -1 not in vor.regions[ri]
                and all((vor.vertices[i] >= lo).all() and (vor.vertices[i] <= hi).all() for i in vor.regions[ri])]
        used = set()
        for si in kept:
            reg = vor.regions[vor.point_region[si]]
            for i in range(len(reg)):
                used.add(tuple(sorted((reg[i], reg[(i + 1) % len(reg)]))))
        P = vor.vertices * scale
        mn = np.min([P[i] for e in used for i in e], axis=0)
        P = P - mn + pad
        mx = np.max([P[i] for e in used for i in e], axis=0)
        W, H = int(mx[0]) + pad + 1, int(mx[1]) + pad + 1
        img = np.zeros((H, W), np.uint8)
        if style == "labels":
            yy, xx = np.mgrid[0:H, 0:W]
            px = (np.stack([xx, yy], axis=-1).astype(float) - pad + mn) / scale
            d2 = ((px[:, :, None, :] - sites[None, None, :, :]) ** 2).sum(axis=3)
            near = d2.argmin(axis=2)
            keptarr = np.zeros(len(sites), bool)
            keptarr[kept] = True
            lab0 = np.where(keptarr[near], near, -1)
            img[:, :-1] |= (lab0[:, :-1] != lab0[:, 1:]).astype(np.uint8)
            img[:-1, :] |= (lab0[:-1, :] != lab0[1:, :]).astype(np.uint8)
            img[0, :] = img[-1, :] = 0
            img[:, 0] = img[:, -1] = 0
            img = minimal(img)
        else:
            for a, b in used:
                cv2.line(img, tuple(int(round(c)) for c in P[a]), tuple(int(round(c)) for c in P[b]), 1, 1, cv2.LINE_8)
            lab, n = ndi.label(img == 0)
            sizes = ndi.sum(img == 0, lab, range(1, n + 1))
            for i, sz in enumerate(sizes, 1):
                if sz < 12:
                    img[lab == i] = 1
            img = zhang_suen(img)
            if minimal_junctions:
                img = minimal(img)
        # reference topology from the Voronoi diagram
        keptset = set(kept)
        pairs = set()
        vcells = {}
        for si in kept:
            for v in vor.regions[vor.point_region[si]]:
                vcells.setdefault(v, set()).add(si)
        internal = set()
        border = set()
        for (p, q), rv in zip(vor.ridge_points, vor.ridge_vertices):
            p, q = int(p), int(q)
            if -1 in rv:
                continue
            if p in keptset and q in keptset:
                pairs.add((min(p, q), max(p, q)))
                if any(len(vcells.get(v, ())) >= 3 for v in rv):
                    internal.add((min(p, q), max(p, q)))
            elif p in keptset:
                border.add(p)
            elif q in keptset:
                border.add(q)
        junctions = sum(1 for v, cs in vcells.items() if len(cs) >= 3)
        centres = {si: (float((sites[si] * scale - mn + pad)[0]), float((sites[si] * scale - mn + pad)[1])) for si in kept}
        # shortest ridge (pixels) and smallest junction angle, for the quantifier's filters
        minridge = min(float(np.hypot(*(P[a] - P[b]))) for a, b in used)
    topo = {"cells": len(kept), "pairs": sorted(pairs), "internal": sorted(internal), "border": sorted(border), "junctions": junctions,
            "centres": centres, "minridge": minridge}
    return img, topo
