"""The mesh-consistency predicate of C09, item by item (reference; reads only public attributes)."""


def check_mesh(vertices, edges, cells, limit=6):
    """returns a list of problem strings (empty = consistent)"""
    P = []

    def add(msg):
        if len(P) < limit:
            P.append(msg)
    # stored under own id, same object
    for k, v in vertices.items():
        if v.id != k:
            add("vertex stored under key %s has id %s" % (k, v.id))
    for k, e in edges.items():
        if e.id != k:
            add("edge stored under key %s has id %s" % (k, e.id))
        for w in (e.v1, e.v2):
            if w.id not in vertices:
                add("edge %s references vertex %s which is not in the mesh" % (k, w.id))
            elif vertices[w.id] is not w:
                add("edge %s references a vertex object %s different from the one stored in the mesh" % (k, w.id))
        if e.v1.id == e.v2.id:
            add("edge %s joins a vertex with itself" % k)
    for k, c in cells.items():
        if c.id != k:
            add("cell stored under key %s has id %s" % (k, c.id))
        ids = [v.id for v in c.vertices]
        if len(set(ids)) != len(ids):
            add("cell %s repeats a vertex: %s" % (k, [i for i in ids if ids.count(i) > 1][:3]))
        for w in c.vertices:
            if w.id not in vertices:
                add("cell %s references vertex %s which is not in the mesh" % (k, w.id))
            elif vertices[w.id] is not w:
                add("cell %s references a vertex object %s different from the one stored in the mesh" % (k, w.id))
    # vertex lists edge <=> edge ends there
    ends = {}
    for k, e in edges.items():
        ends.setdefault(e.v1.id, set()).add(k)
        ends.setdefault(e.v2.id, set()).add(k)
    for k, v in vertices.items():
        own = list(v.ownEdges)
        if len(set(own)) != len(own):
            add("vertex %s lists an edge twice" % k)
        if set(own) != ends.get(k, set()):
            extra = sorted(set(own) - ends.get(k, set()))[:3]
            miss = sorted(ends.get(k, set()) - set(own))[:3]
            add("vertex %s: ownEdges differs from the edges ending there (lists but not ending: %s; ending but not listed: %s)" % (k, extra, miss))
    # vertex lists cell <=> vertex occurs in the cell's cycle
    occ = {}
    for k, c in cells.items():
        for w in c.vertices:
            occ.setdefault(w.id, set()).add(k)
    for k, v in vertices.items():
        own = list(v.ownCells)
        if len(set(own)) != len(own):
            add("vertex %s lists a cell twice" % k)
        if set(own) != occ.get(k, set()):
            add("vertex %s: ownCells %s differs from the cells whose cycle contains it %s" % (k, sorted(own)[:5], sorted(occ.get(k, set()))[:5]))
    # consecutive cycle vertices joined by a mesh edge
    pairs = set()
    for e in edges.values():
        pairs.add((e.v1.id, e.v2.id))
        pairs.add((e.v2.id, e.v1.id))
    for k, c in cells.items():
        ids = [v.id for v in c.vertices]
        n = len(ids)
        if n < 2:
            continue
        for i in range(n):
            a, b = ids[i], ids[(i + 1) % n]
            if a != b and (a, b) not in pairs:
                add("cell %s: consecutive cycle vertices %s and %s are not joined by a mesh edge" % (k, a, b))
                break
    return P
