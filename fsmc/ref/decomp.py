"""Reference interface decomposition: maximal paths of the mesh graph whose ends have degree >= 3
and whose interior vertices have degree 2; and the single internal/external predicate."""
import collections


def maximal_paths(mesh_edges):
    """mesh_edges: iterable of (u, v). Returns (set of canonical paths (tuples), set of junction ids).
    A path is canonicalised as min(path, reversed path)."""
    adj = collections.defaultdict(list)
    for a, b in mesh_edges:
        adj[a].append(b)
        adj[b].append(a)
    junc = {v for v in adj if len(adj[v]) >= 3}
    paths = set()
    for j in sorted(junc):
        for nb in adj[j]:
            path = [j, nb]
            prev, cur = j, nb
            ok = True
            while cur not in junc:
                if len(adj[cur]) != 2:
                    ok = False      # dangling end: not an interface
                    break
                nxt = [x for x in adj[cur] if x != prev]
                nx = nxt[0] if nxt else prev
                path.append(nx)
                prev, cur = cur, nx
                if len(path) > 100000:
                    raise RuntimeError("runaway path")
            if ok:
                t = tuple(path)
                paths.add(min(t, t[::-1]))
    return paths, junc


def cells_of_vertex(cell_cycles):
    """{vid: set(cell ids)} from {cid: [vid,...]}"""
    out = collections.defaultdict(set)
    for cid, cyc in cell_cycles.items():
        for v in cyc:
            out[v].add(cid)
    return out


def is_internal(path, vcells):
    """the statement's predicate: every vertex in >= 2 cells and at least one end in >= 3"""
    if any(len(vcells.get(v, ())) < 2 for v in path):
        return False
    return len(vcells.get(path[0], ())) >= 3 or len(vcells.get(path[-1], ())) >= 3


def cells_beside(path, cell_cycles):
    """cells whose cycle contains a mesh edge of the path (consecutive vertices, either direction)"""
    out = set()
    segs = {(path[i], path[i + 1]) for i in range(len(path) - 1)}
    segs |= {(b, a) for a, b in segs}
    for cid, cyc in cell_cycles.items():
        n = len(cyc)
        for i in range(n):
            if (cyc[i], cyc[(i + 1) % n]) in segs:
                out.add(cid)
                break
    return out
