"""Independent Surface Evolver dump serialiser (layout of the shipped dumps: same section headers, a blank line
before every next section header, 'id x y', 'id v1 v2 [density d] [original n]', wrapped edge loops closed by a
two-token area comment, 'id facet volume V /*actual: X*/ lagrange_multiplier L centerofmass')."""


def fmt(x):
    return repr(float(x))


def write_dump(path, vertices, edges, faces, bodies, wrap=10, tail="own", eol="\n", extra_vertices=(), extra_edges=()):
    """vertices: [(id, x, y)], edges: [(id, v1, v2, form)] with form = ("density", d) | ("density_original", d, n) |
    ("original", n) | ("bare",); faces: [(id, [signed edge ids], area)], bodies: [(id, face id, lagrange multiplier)].
    wrap = number of edge references per line. tail = 'own' (area comment on its own line) | 'inline'."""
    L = []
    L.append("// generated dump")
    L.append("")
    L.append("vertices_predicted       %d" % (len(vertices) + len(extra_vertices)))
    L.append("edges_predicted          %d" % (len(edges) + len(extra_edges)))
    L.append("SPACE_DIMENSION 2")
    L.append("STRING")
    L.append("")
    L.append("vertices        /*  coordinates  */    ")
    for (i, x, y) in list(vertices) + list(extra_vertices):
        L.append("%3d   %s  %s" % (i, fmt(x), fmt(y)))
    L.append("")
    L.append("edges  ")
    for rec in list(edges) + list(extra_edges):
        i, a, b, form = rec
        if form[0] == "density":
            L.append("%3d   %5d %d      density %s " % (i, a, b, fmt(form[1])))
        elif form[0] == "density_original":
            L.append("%3d   %5d %d      density %s  original %d" % (i, a, b, fmt(form[1]), form[2]))
        elif form[0] == "original":
            L.append("%3d   %5d %d      original %d" % (i, a, b, form[1]))
        else:
            L.append("%3d   %5d %d" % (i, a, b))
    L.append("")
    L.append("faces    /* edge loop */      ")
    for (i, loop, area) in faces:
        toks = [str(e) for e in loop]
        comment = "/*area %s*/" % fmt(area)
        if wrap > len(toks) or (wrap == len(toks) and tail == "inline"):
            L.append("%3d   %s %s" % (i, " ".join(toks), comment))
            continue
        chunks = [toks[k:k + wrap] for k in range(0, len(toks), wrap)]
        for n, ch in enumerate(chunks):
            last = n == len(chunks) - 1
            head = "%3d   " % i if n == 0 else "               "
            if last and tail == "inline":
                L.append(head + " ".join(ch) + " " + comment)
            else:
                L.append(head + " ".join(ch) + " \\")
        if tail == "own":
            L.append("               " + comment)
    L.append("")
    L.append("bodies  /* facets */")
    for (i, f, lm) in bodies:
        L.append("%3d       %d  volume 500  /*actual: 500.000000360519*/ lagrange_multiplier %s  centerofmass " % (i, f, fmt(lm)))
    L.append("")
    L.append("read")
    L.append('ff := "generated.dmp"')
    L.append("")
    with open(path, "w", newline="") as fh:
        fh.write(eol.join(L) + eol)
