"""thin helpers around the forsys public API (observation only; no oracle logic here)"""
import contextlib
import io
import warnings

import numpy as np


@contextlib.contextmanager
def quiet():
    """capture library prints and warnings; yields the list of recorded warnings"""
    buf = io.StringIO()
    with warnings.catch_warnings(record=True) as w:
        warnings.simplefilter("always")
        with contextlib.redirect_stdout(buf):
            yield w


def ref_math():
    """context for reference computations: forsys sets np.seterr(all='raise') globally"""
    return np.errstate(all="ignore")


def mesh_graph(edges):
    """[(v1id, v2id)] of the mesh edges dict"""
    return [tuple(e.get_vertices_id()) for e in edges.values()]


def snapshot(vertices, edges, cells):
    """JSON-able snapshot of the three dictionaries including the hand-maintained back references"""
    return {
        "v": {int(k): [int(v.id), float(v.x), float(v.y), sorted(int(x) for x in v.ownEdges), sorted(int(x) for x in v.ownCells)] for k, v in vertices.items()},
        "e": {int(k): [int(e.id), int(e.v1.id), int(e.v2.id)] for k, e in edges.items()},
        "c": {int(k): [int(c.id), [int(v.id) for v in c.vertices]] for k, c in cells.items()},
    }


def call(fn, *a, **kw):
    """run a library call; returns (result, None) or (None, exception)"""
    try:
        with quiet():
            return fn(*a, **kw), None
    except Exception as ex:  # noqa: library exception is an observation
        return None, ex


def exc_str(ex):
    return "%s: %s" % (type(ex).__name__, str(ex)[:200])


def deep_state(obj, max_depth=6, _seen=None, _depth=0, ndigits=9):
    """Canonical JSON-able image of *everything* reachable from obj's instance dictionaries
    (hidden caches included), so that state keys never merge two states with different futures.
    Objects are numbered in visiting order; floats rounded to `ndigits` significant digits."""
    import hashlib
    if _seen is None:
        _seen = {}
    if obj is None or isinstance(obj, (bool, int, str)):
        return obj
    if isinstance(obj, float):
        return float("%.*g" % (ndigits, obj)) if obj == obj and abs(obj) != float("inf") else str(obj)
    if isinstance(obj, (np.integer,)):
        return int(obj)
    if isinstance(obj, (np.floating,)):
        return deep_state(float(obj), ndigits=ndigits)
    if isinstance(obj, np.ndarray):
        with np.errstate(all="ignore"):
            if obj.dtype.kind in "fc":
                a = np.array([float("%.*g" % (ndigits, x)) if np.isfinite(x) else 0.0 for x in obj.astype(float).ravel()])
            else:
                a = obj.ravel()
            return ["nd", list(obj.shape), hashlib.sha1(repr(a.tolist()).encode()).hexdigest()[:16]]
    if _depth > max_depth:
        return "<deep>"
    oid = id(obj)
    if isinstance(obj, (list, tuple)):
        return [deep_state(x, max_depth, _seen, _depth + 1, ndigits) for x in obj]
    if isinstance(obj, (set, frozenset)):
        return ["set"] + sorted((deep_state(x, max_depth, _seen, _depth + 1, ndigits) for x in obj), key=repr)
    if isinstance(obj, dict):
        return {str(k): deep_state(v, max_depth, _seen, _depth + 1, ndigits) for k, v in obj.items()}
    if hasattr(obj, "__dict__"):
        if oid in _seen:
            return ["ref", _seen[oid]]
        _seen[oid] = len(_seen)
        d = {"__class__": type(obj).__name__, "__n__": _seen[oid]}
        for k, v in vars(obj).items():
            d[k] = deep_state(v, max_depth, _seen, _depth + 1, ndigits)
        return d
    return repr(obj)[:80]


def state_hash(x):
    import hashlib
    import json
    return hashlib.sha1(json.dumps(x, sort_keys=True, default=str).encode()).hexdigest()[:20]
