"""thin helpers around the forsys public API (observation only; no oracle logic here)"""
import contextlib
import io
import warnings

import numpy as np


@contextlib.contextmanager
def quiet():
    """capture library prints and warnings; yields the list of recorded warnings"""
    buf = io.StringIO()
    with warnings.catch_warnings(record=True) as w:
        warnings.simplefilter("always")
        with contextlib.redirect_stdout(buf):
            yield w


def ref_math():
    """context for reference computations: forsys sets np.seterr(all='raise') globally"""
    return np.errstate(all="ignore")


def mesh_graph(edges):
    """[(v1id, v2id)] of the mesh edges dict"""
    return [tuple(e.get_vertices_id()) for e in edges.values()]


def snapshot(vertices, edges, cells):
    """JSON-able snapshot of the three dictionaries including the hand-maintained back references"""
    return {
        "v": {int(k): [int(v.id), float(v.x), float(v.y), sorted(int(x) for x in v.ownEdges), sorted(int(x) for x in v.ownCells)] for k, v in vertices.items()},
        "e": {int(k): [int(e.id), int(e.v1.id), int(e.v2.id)] for k, e in edges.items()},
        "c": {int(k): [int(c.id), [int(v.id) for v in c.vertices]] for k, c in cells.items()},
    }


def call(fn, *a, **kw):
    """run a library call; returns (result, None) or (None, exception)"""
    try:
        with quiet():
            return fn(*a, **kw), None
    except Exception as ex:  # noqa: library exception is an observation
        return None, ex


def exc_str(ex):
    return "%s: %s" % (type(ex).__name__, str(ex)[:200])
