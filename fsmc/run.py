"""Runner:  python -m fsmc.run <ID> quick|thorough   |   <ID> --replay <file>"""
import hashlib
import importlib
import json
import os
import sys
import time

from . import explorer
from .explorer import Stats, explore, HarnessError, dkey

ROOT = os.path.dirname(os.path.dirname(os.path.abspath(__file__)))
KNOWN_FILE = os.path.join(ROOT, "known_findings.json")


def load_known():
    with open(KNOWN_FILE) as f:
        data = json.load(f)
    return data["findings"]


def assert_repo():
    import forsys
    p = os.path.realpath(forsys.__file__)
    root = os.path.realpath(os.environ.get("FORSYS_REPO", "/repo")) + "/"
    if not p.startswith(root):
        raise HarnessError("forsys imported from %s, not from %s" % (p, root))


def write_violation(pid, v, tier, seed):
    os.makedirs(os.path.join(ROOT, "violations"), exist_ok=True)
    rec = {"property": pid, "tier": tier, "seed": seed, "violation": v}
    blob = json.dumps(rec, sort_keys=True, default=str, indent=1)
    h = hashlib.sha1(blob.encode()).hexdigest()[:12]
    path = os.path.join(ROOT, "violations", "%s-%s.json" % (pid, h))
    with open(path, "w") as f:
        f.write(blob)
    return path


def _install_function_coverage(outdir):
    """development aid (VERIF_FUNCCOV=<dir>): which forsys functions do the checks execute at all? Every process appends the
    functions it is the first to see to <dir>/<pid>.txt; tools/funccov.py summarises against the functions defined in the package."""
    import sys
    os.makedirs(outdir, exist_ok=True)
    seen = set()
    root = os.path.join(os.environ.get("FORSYS_REPO", "/repo"), "forsys") + os.sep

    def prof(frame, event, arg):
        if event != "call":
            return
        co = frame.f_code
        if co in seen:
            return
        seen.add(co)
        fn = co.co_filename
        if fn.startswith(root):
            with open(os.path.join(outdir, "%d.txt" % os.getpid()), "a") as fh:
                fh.write("%s:%d:%s\n" % (fn[len(root):], co.co_firstlineno, co.co_name))
    sys.setprofile(prof)


def _install_line_coverage(outdir):
    """development aid (VERIF_LINECOV=<dir>): which forsys LINES do the checks execute? sys.monitoring LINE events, each location
    reported once per process (forked workers inherit what the parent already saw); tools/linecov.py summarises."""
    import sys
    os.makedirs(outdir, exist_ok=True)
    mon = sys.monitoring
    tool = mon.COVERAGE_ID
    mon.use_tool_id(tool, "verif-linecov")
    root = os.path.join(os.environ.get("FORSYS_REPO", "/repo"), "forsys") + os.sep

    def on_line(code, line):
        fn = code.co_filename
        if fn.startswith(root):
            with open(os.path.join(outdir, "%d.txt" % os.getpid()), "a") as fh:
                fh.write("%s:%d\n" % (fn[len(root):], line))
        return mon.DISABLE
    mon.register_callback(tool, mon.events.LINE, on_line)
    mon.set_events(tool, mon.events.LINE)


def _private_tmp():
    """one scratch directory per run, created before the worker pool forks and removed when the main process exits: the workers'
    own temporary directories (TIFFs, dumps) are created inside it (forked pool workers leave through os._exit and never run their
    atexit handlers, so directories they create directly under /tmp would stay behind)"""
    import atexit
    import shutil
    import tempfile
    base = tempfile.mkdtemp(prefix="fsmc_run_")
    tempfile.tempdir = base
    os.environ["TMPDIR"] = base
    atexit.register(shutil.rmtree, base, True)


def main(argv):
    _private_tmp()
    if os.environ.get("VERIF_FUNCCOV"):
        _install_function_coverage(os.environ["VERIF_FUNCCOV"])
    if os.environ.get("VERIF_LINECOV"):
        _install_line_coverage(os.environ["VERIF_LINECOV"])
    if len(argv) < 2:
        print("usage: check <ID> quick|thorough | <ID> --replay <file>")
        return 2
    pid = argv[0].upper()
    mod = importlib.import_module("checks.%s" % pid.lower())
    try:
        assert_repo()
        if argv[1] == "--replay":
            return replay(pid, mod, argv[2])
        tier = argv[1]
        if tier not in ("quick", "thorough"):
            print("unknown tier", tier)
            return 2
        seed = int(os.environ.get("VERIF_SEED", "0"))
        return run(pid, mod, tier, seed)
    except HarnessError as e:
        print("HARNESS-ERROR property=%s\n%s" % (pid, e))
        return 2


def run(pid, mod, tier, seed):
    t0 = time.time()
    import glob
    for f in glob.glob(os.path.join(ROOT, "violations", "%s-*.json" % pid)):
        os.remove(f)       # replay files of earlier runs of this property
    known = load_known()
    listed = {f["id"]: f for f in known if pid in f["properties"]}
    systems = mod.build(tier, seed)
    budget = getattr(mod, "BUDGET", {}).get(tier)
    deadline = (t0 + budget) if budget else None
    st = Stats()
    per_system = []
    for s in systems:
        before = (st.states, st.transitions)
        explore(s, st, deadline=deadline)
        per_system.append({"system": s.name, "states": st.states - before[0], "transitions": st.transitions - before[1], "bound": s.bound,
                           "levels": st.levels[:], "fixpoint": st.fixpoint})
        st.levels = []
        if st.capped:
            break
    # vacuity guards
    required = getattr(mod, "REQUIRED_TAGS", {}).get(tier, getattr(mod, "REQUIRED_TAGS", {}).get("all", []))
    missing = [t for t in required if st.tags.get(t, 0) == 0]
    if missing and not st.violations:
        raise HarnessError("vacuous exploration: no instance met precondition bucket(s) %s" % missing)
    # known findings
    real = list(st.violations)
    seen_known = {}
    for fid, n in sorted(st.known.items()):
        f = listed.get(fid)
        if f is not None and f.get("status") == "known":
            seen_known[fid] = n
            print("KNOWN-FINDING: property=%s %s: %s [%d instance(s) explained by its mechanism, e.g. %s]" % (
                pid, fid, f["what"], n, dkey(st.known_example[fid])[:200]))
        else:
            status = "fixed" if (f is not None and f.get("status") == "fixed") else "unlisted"
            real.append({"what": "discrepancy with the mechanism of finding %s, which is %s for %s" % (fid, status, pid),
                         "finding": fid, "count": n, "example": st.known_example[fid], "system": "known-findings"})
    paths = []
    shown = set()
    for v in real:
        sig = (v.get("system"), v.get("what"))
        p = write_violation(pid, v, tier, seed)
        if sig in shown and len(paths) >= 5:
            continue
        shown.add(sig)
        paths.append(p)
        if len(paths) <= 10:
            print("VIOLATION property=%s replay=%s" % (pid, p))
            print("  what: %s" % str(v.get("what"))[:400])
    wall = time.time() - t0
    exhaustive = st.capped is None
    ev = {
        "property_id": pid, "tier": tier, "seed": seed, "level": "model_checking",
        "coverage": {
            "states": max(st.states, 0), "transitions": st.transitions,
            "traces_validated_against_impl": st.traces,
            "samples": st.samples[:8],
            "evaluations": st.evaluations,
            "distinct_nontrivial": len(st.nontrivial_classes),
            "distinct_observation_classes": len(st.classes),
            "rule": getattr(mod, "RULE", ""),
            "exhaustive": exhaustive,
            "caps_hit": st.capped,
            "bound": getattr(mod, "BOUND", {}).get(tier, ""),
            "systems": per_system,
            "precondition_buckets": dict(sorted(st.tags.items())),
            "outside_statement_no_verdict": st.outdom,
            "known_findings_seen": seen_known,
            "explanation": "every explored path was executed on the implementation in /repo (no abstract model); "
                           "traces_validated_against_impl counts those executions",
        },
        "assumptions": getattr(mod, "ASSUMPTIONS", []),
        "wall_s": round(wall, 2),
        "violations": len(real),
    }
    if ev["coverage"]["transitions"] == 0:
        # pure enumerations (depth 0): each case is one initial state; report generic keys only
        ev["coverage"].pop("transitions")
        ev["coverage"].pop("traces_validated_against_impl")
        ev["coverage"]["executions_on_impl"] = st.traces
    if not os.environ.get("VERIF_KEEP_EVIDENCE"):   # set only by tools/try_seed.sh (runs against a deliberately broken tree)
        os.makedirs(os.path.join(ROOT, "evidence"), exist_ok=True)
        with open(os.path.join(ROOT, "evidence", "%s.json" % pid), "w") as f:
            json.dump(ev, f, indent=1, sort_keys=True, default=str)
    print("%s %s seed=%d: states=%d transitions=%d executions=%d classes=%d nontrivial=%d outdom=%d exhaustive=%s wall=%.1fs" % (
        pid, tier, seed, st.states, st.transitions, st.traces, len(st.classes), len(st.nontrivial_classes), st.outdom, exhaustive, wall))
    for k, v in sorted(st.tags.items()):
        print("  bucket %-40s %d" % (k, v))
    if st.capped:
        print("  CAP: %s" % st.capped)
    return 1 if real else 0


def replay(pid, mod, path):
    with open(path) as f:
        rec = json.load(f)
    v = rec["violation"]
    tier, seed = rec["tier"], rec["seed"]
    systems = {s.name: s for s in mod.build(tier, seed)}
    if v.get("system") == "known-findings":
        # re-evaluate the recorded example state
        ex = v["example"]
        d = ex.get("dst") or ex.get("src")
        cands = list(systems.values())
    else:
        d = v["dst"]
        cands = [systems[v["system"]]]
    bad = False
    for s in cands:
        explorer._SYSTEM = s
        try:
            r2 = explorer._eval_one(d)
            if "harness_error" in r2:
                if len(cands) > 1:
                    continue
                raise HarnessError(r2["harness_error"])
            viol = list(r2["viol"])
            known = list(r2["known"])
            if v.get("kind") == "edge":
                r1 = explorer._eval_one(v["src"])
                if "harness_error" in r1:
                    raise HarnessError(r1["harness_error"])
                ev, ek = s.check_edge(v["src"], v["action"], v["dst"], r1, r2)
                viol += ev
                known += ek
            listed = {f["id"]: f for f in load_known() if pid in f["properties"] and f.get("status") == "known"}
            for kf in known:
                fid = kf["id"] if isinstance(kf, dict) else kf
                if fid not in listed:
                    viol.append({"what": "mechanism of unlisted/fixed finding %s" % fid})
                else:
                    print("KNOWN-FINDING: property=%s %s" % (pid, fid))
            for x in viol:
                bad = True
                print("  what: %s" % str(x.get("what"))[:1000])
                if "detail" in x:
                    print("  detail: %s" % str(x["detail"])[:2000])
        finally:
            explorer._SYSTEM = None
    if bad:
        print("VIOLATION property=%s replay=%s" % (pid, path))
        return 1
    print("replay of %s: no violation on the current tree" % path)
    return 0


if __name__ == "__main__":
    sys.exit(main(sys.argv[1:]))
