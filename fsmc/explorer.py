"""Explicit-state, bounded-exhaustive explorer over the real implementation.

A *system* is an object with

    name                 str
    initial()            -> list of descriptors (JSON-able)
    actions(d)           -> list of actions (JSON-able) enabled in d          (main process)
    step(d, a)           -> descriptor d'                                       (main process, pure)
    evaluate(d)          -> result dict, executed in a worker on FRESH forsys objects
                            keys: key (canonical state key, str), viol (list), known (list of
                            finding ids whose mechanism explains a discrepancy), tags (list of str),
                            cls (observation class, str), nontrivial (bool), obs (anything the
                            edge relation needs; JSON-able), outdom (bool: outside the statement)
    check_edge(d, a, d2, r, r2) -> (viol list, known list)                      (main process)
    bound                int: maximal depth (operation histories) or number of deviations

The explorer runs breadth first, level by level.  Every descriptor is executed on the
implementation (there is no abstract model: each explored path is a trace of the real code).
States are de-duplicated on the canonical key of the *observed* state; a state whose key was
seen before is not expanded again, which makes "no new state at depth d" a fixpoint.
The frontier of each level is evaluated by a pool of long-lived workers and merged in
descriptor order, so the exploration is deterministic irrespective of worker timing.
"""
import contextlib
import io
import json
import multiprocessing as mp
import os
import time
import traceback

NPROC = int(os.environ.get("VERIF_NPROC", "16"))

_SYSTEM = None


class HarnessError(Exception):
    pass


def dkey(d):
    return json.dumps(d, sort_keys=True, default=str)


def _eval_one(d):
    """worker: evaluate one descriptor; harness exceptions are reported, never swallowed"""
    buf = io.StringIO()
    try:
        with contextlib.redirect_stdout(buf):
            r = _SYSTEM.evaluate(d)
        r.setdefault("key", dkey(d))
        r.setdefault("viol", [])
        r.setdefault("known", [])
        r.setdefault("tags", [])
        r.setdefault("obs", None)
        r.setdefault("cls", r.get("key"))
        r.setdefault("nontrivial", True)
        r.setdefault("outdom", False)
        return r
    except Exception as ex:
        lib = _raised_inside_library(ex)
        if lib:
            # an exception that originated inside the library and travelled through a harness call that was not wrapped:
            # the library failed on an input of the alphabet, which is a verdict on the library, not a defect of the harness
            return {"key": dkey(d), "viol": [{"what": "the library raised where the harness expected a result", "detail": {"exc": "%s: %s" % (type(ex).__name__, str(ex)[:300]), "at": lib}}],
                    "known": [], "tags": ["uncaught_library_exception"], "obs": None, "cls": "uncaught-library-exception", "nontrivial": True, "outdom": False}
        return {"harness_error": traceback.format_exc(), "d": d}


def _raised_inside_library(ex):
    """'file:line function' of the innermost library frame if the traceback ends inside the forsys package (possibly in numpy /
    scipy called from it) without passing through harness code again; None otherwise"""
    root = os.path.join(os.environ.get("FORSYS_REPO", "/repo"), "forsys") + os.sep
    here = os.path.dirname(os.path.dirname(os.path.abspath(__file__))) + os.sep
    frames = traceback.extract_tb(ex.__traceback__)
    last_lib = None
    for fr in frames:
        if fr.filename.startswith(root):
            last_lib = "%s:%d %s" % (fr.filename[len(root):], fr.lineno, fr.name)
        elif fr.filename.startswith(here):
            last_lib = None
    return last_lib


def _eval_edge(args):
    d, a, d2, r, r2 = args
    try:
        v, k = _SYSTEM.check_edge(d, a, d2, r, r2)
        return {"viol": v, "known": k}
    except Exception:
        return {"harness_error": traceback.format_exc(), "d": d2}


class Stats:
    def __init__(self):
        self.states = 0
        self.transitions = 0
        self.traces = 0
        self.evaluations = 0
        self.classes = set()
        self.nontrivial_classes = set()
        self.tags = {}
        self.outdom = 0
        self.samples = []
        self.levels = []
        self.capped = None
        self.fixpoint = False
        self.violations = []   # dicts
        self.known = {}        # finding id -> count
        self.known_example = {}

    def tag(self, t, n=1):
        self.tags[t] = self.tags.get(t, 0) + n


def explore(system, stats=None, deadline=None, max_states=None, parallel_edges=False):
    """BFS over `system`. Returns Stats. `deadline` (time.time()) and `max_states` are caps;
    if hit, stats.capped says where and the run is NOT reported as exhaustive."""
    global _SYSTEM
    st = stats or Stats()
    _SYSTEM = system
    ctx = mp.get_context("fork")
    nproc = min(NPROC, getattr(system, "nproc", NPROC))
    pool = ctx.Pool(nproc) if nproc > 1 else None

    def pmap(fn, items, chunk=None):
        if not items:
            return []
        if pool is None:
            return [fn(x) for x in items]
        if chunk is None:
            chunk = max(1, min(getattr(system, "chunk", 8), len(items) // (nproc * 4) or 1))
        return pool.map(fn, items, chunksize=chunk)

    try:
        init = system.initial()
        seen_desc = set()
        level = []
        for d in init:
            k = dkey(d)
            if k not in seen_desc:
                seen_desc.add(k)
                level.append(d)
        results = pmap(_eval_one, level)
        # determinism guard: the first states are evaluated twice and must agree bit for bit
        ncheck = min(8, len(level))
        again = pmap(_eval_one, level[:ncheck])
        for d, r1, r2 in zip(level[:ncheck], results[:ncheck], again):
            if "harness_error" in r1:
                raise HarnessError(r1["harness_error"])
            if dkey(_strip(r1)) != dkey(_strip(r2)):
                bad = r1 if r1.get("viol") else (r2 if r2.get("viol") else None)
                if bad is None:
                    raise HarnessError("non-deterministic evaluation of %s:\n%s\n%s" % (dkey(d)[:300], dkey(_strip(r1))[:2000], dkey(_strip(r2))[:2000]))
                # the same state, evaluated twice on freshly built library objects, once violates the property and once does not:
                # the implementation carries state from one object to the next inside a process (class attributes, mutable
                # defaults, module globals). The violating execution happened on the real code, so it is reported; it
                # depends on what ran earlier in the worker and need not reproduce from a single replayed state.
                for v in bad["viol"]:
                    v["what"] = "[differs between two evaluations of the same state on fresh objects in one process: state shared between objects] " + v["what"]
                results[level.index(d)] = bad
        seen_keys = {}
        frontier = []
        for d, r in zip(level, results):
            _absorb_state(system, st, d, r, path=[d])
            if r["key"] not in seen_keys:
                seen_keys[r["key"]] = d
                st.states += 1
                frontier.append((d, r))
            st.traces += 1
        st.levels.append(len(frontier))
        depth = 0
        while frontier and depth < system.bound:
            depth += 1
            triples = []
            for d, r in frontier:
                if r.get("outdom") and not getattr(system, "expand_outdom", False):
                    continue
                for a in system.actions(d):
                    d2 = system.step(d, a)
                    triples.append((d, a, d2, r))
            # evaluate distinct new descriptors
            todo = []
            todo_keys = {}
            for (d, a, d2, r) in triples:
                k = dkey(d2)
                if k not in todo_keys:
                    todo_keys[k] = len(todo)
                    todo.append(d2)
            res = pmap(_eval_one, todo)
            new_frontier = []
            edge_jobs = []
            for (d, a, d2, r) in triples:
                r2 = res[todo_keys[dkey(d2)]]
                if "harness_error" in r2:
                    raise HarnessError(r2["harness_error"])
                st.transitions += 1
                st.traces += 1
                edge_jobs.append((d, a, d2, r, r2))
            if parallel_edges:
                eres = pmap(_eval_edge, edge_jobs)
            else:
                eres = [_eval_edge(j) for j in edge_jobs]
            for (d, a, d2, r, r2), er in zip(edge_jobs, eres):
                if "harness_error" in er:
                    raise HarnessError(er["harness_error"])
                for v in er["viol"]:
                    _add_violation(system, st, dict(v, kind="edge", src=d, action=a, dst=d2))
                for kf in er["known"]:
                    _add_known(st, kf, {"src": d, "action": a})
            done = set()
            for d2 in todo:
                r2 = res[todo_keys[dkey(d2)]]
                k = dkey(d2)
                if k in seen_desc:
                    continue
                seen_desc.add(k)
                _absorb_state(system, st, d2, r2, path=None)
                if r2["key"] not in seen_keys:
                    seen_keys[r2["key"]] = d2
                    st.states += 1
                    new_frontier.append((d2, r2))
            st.levels.append(len(new_frontier))
            frontier = new_frontier
            if deadline and time.time() > deadline and frontier and depth < system.bound:
                st.capped = "time cap hit after completing depth %d of %d (%s)" % (depth, system.bound, system.name)
                break
            if max_states and st.states > max_states and frontier and depth < system.bound:
                st.capped = "state cap %d hit after completing depth %d of %d (%s)" % (max_states, depth, system.bound, system.name)
                break
        if not frontier:
            st.fixpoint = True
    finally:
        if pool is not None:
            pool.close()
            pool.join()
        _SYSTEM = None
    return st


def _strip(r):
    return {k: v for k, v in r.items() if k not in ("wall",)}


def _absorb_state(system, st, d, r, path):
    if "harness_error" in r:
        raise HarnessError(r["harness_error"])
    st.evaluations += 1 + r.get("extra_evaluations", 0)
    # a worker may run an inner exhaustive enumeration (all variants of one case) and report its size
    st.states += r.get("extra_states", 0)
    st.transitions += r.get("extra_transitions", 0)
    st.traces += r.get("extra_transitions", 0) + r.get("extra_states", 0)
    for c in r.get("extra_classes", ()):
        st.classes.add(c)
        st.nontrivial_classes.add(c)
    st.classes.add(r["cls"])
    if r.get("nontrivial", True) and not r.get("outdom"):
        st.nontrivial_classes.add(r["cls"])
    if r.get("outdom"):
        st.outdom += 1
    for t in r["tags"]:
        st.tag(t)
    if len(st.samples) < 4 or (st.evaluations in (10, 100, 1000)):
        if len(st.samples) < 8:
            st.samples.append({"system": system.name, "descriptor": d, "key": str(r["key"])[:80], "tags": r["tags"][:8]})
    for v in r["viol"]:
        _add_violation(system, st, dict(v, kind="state", dst=d))
    for kf in r["known"]:
        _add_known(st, kf, {"dst": d})


def _add_violation(system, st, v):
    v = dict(v)
    v["system"] = system.name
    st.violations.append(v)


def _add_known(st, kf, where):
    if isinstance(kf, dict):
        fid = kf["id"]
        where = dict(where, **{k: v for k, v in kf.items() if k != "id"})
    else:
        fid = kf
    st.known[fid] = st.known.get(fid, 0) + 1
    st.known_example.setdefault(fid, where)


# ---------------------------------------------------------------------------------------------
# Helper base class: deviation-bounded exploration of a product of finite axes
# ---------------------------------------------------------------------------------------------
class ProductSystem:
    """Configuration space = product of named finite axes. A descriptor is
    {"base": <anything>, "dev": [[axis, index], ...]} : the centre configuration of `base` with the
    listed axes moved to another value.  An action moves one further axis (axes are taken in
    canonical order, so every configuration within the bound is reached by exactly one path, and
    every edge joins two configurations that differ in exactly one axis).
    Sub-classes define axes(base) -> {name: [values]}, centre(base) -> {name: index}, bases(),
    eval_config(base, cfg) and (optionally) check_pair(base, axis, cfg1, r1, cfg2, r2)."""
    bound = 2
    name = "product"
    full = ()   # tuples of axis names explored as full sub-products (extra initial states)

    def bases(self):
        raise NotImplementedError

    def axes(self, base):
        raise NotImplementedError

    def centre(self, base):
        return {a: 0 for a in self.axes(base)}

    def initial(self):
        out = []
        for b in self.bases():
            out.append({"base": b, "dev": []})
        return out

    def _order(self, base):
        return list(self.axes(base).keys())

    def actions(self, d):
        ax = self.axes(d["base"])
        order = list(ax.keys())
        c = self.centre(d["base"])
        last = -1
        if d["dev"]:
            last = max(order.index(a) for a, _ in d["dev"])
        acts = []
        for i in range(last + 1, len(order)):
            a = order[i]
            for vi in range(len(ax[a])):
                if vi != c[a]:
                    acts.append([a, vi])
        return acts

    def step(self, d, a):
        return {"base": d["base"], "dev": d["dev"] + [list(a)]}

    def config(self, d):
        ax = self.axes(d["base"])
        c = dict(self.centre(d["base"]))
        for a, vi in d["dev"]:
            c[a] = vi
        return {a: ax[a][c[a]] for a in ax}

    def evaluate(self, d):
        r = self.eval_config(d["base"], self.config(d))
        r.setdefault("key", dkey(d))
        return r

    def check_edge(self, d, a, d2, r, r2):
        return self.check_pair(d["base"], a[0], self.config(d), r, self.config(d2), r2)

    def check_pair(self, base, axis, cfg1, r1, cfg2, r2):
        return [], []


class ListSystem:
    """Degenerate system: a finite list of cases, each explored as one initial state (depth 0).
    Used for fully enumerated product spaces where no edge relation is needed."""
    bound = 0
    name = "list"

    def __init__(self, name, cases, fn):
        self.name = name
        self._cases = cases
        self._fn = fn

    def initial(self):
        return self._cases

    def actions(self, d):
        return []

    def step(self, d, a):
        raise NotImplementedError

    def evaluate(self, d):
        r = self._fn(d)
        r.setdefault("key", dkey(d))
        return r

    def check_edge(self, d, a, d2, r, r2):
        return [], []
