"""Named base tissues (deterministic; every check refers to them by name so descriptors stay small)."""
import functools
import math

import numpy as np

from . import tissue as T


def _quality(at):
    """shortest interface / mean interface length, smallest junction angle (deg)"""
    lens = []
    for it in at["I"]:
        a, b = T.zc(at["J"][it["a"]]), T.zc(at["J"][it["b"]])
        lens.append(abs(b - a))
    inc = {}
    for it in at["I"]:
        a, b = T.zc(at["J"][it["a"]]), T.zc(at["J"][it["b"]])
        inc.setdefault(it["a"], []).append(math.atan2((b - a).imag, (b - a).real))
        inc.setdefault(it["b"], []).append(math.atan2((a - b).imag, (a - b).real))
    amin = 360.0
    for j, angs in inc.items():
        if len(angs) < 3:
            continue
        angs = sorted(angs)
        for i in range(len(angs)):
            d = (angs[(i + 1) % len(angs)] - angs[i]) % (2 * math.pi)
            amin = min(amin, math.degrees(d))
    return min(lens) / (sum(lens) / len(lens)), amin


@functools.lru_cache(maxsize=None)
def voronoi_base(nx, ny, jitter, pattern):
    """first pattern >= `pattern` whose bounded Voronoi tissue passes the well-posedness filters
    (shortest ridge >= 0.15 mean, junction angles >= 25 degrees)"""
    p = pattern
    for _ in range(200):
        sites = T.hex_sites(nx, ny, jitter, p)
        at = T.voronoi_at(sites)
        q, amin = _quality(at)
        if q >= 0.15 and amin >= 25.0 and len(at["C"]) >= 1:
            return at
        p += 1
    raise RuntimeError("no well-posed base found")


@functools.lru_cache(maxsize=None)
def get(name):
    """name grammar:  v<nx>x<ny>[j<jitter*100>][p<pattern>] | square<nx>x<ny> | brick<nx>x<ny> | hex<nx>x<ny>"""
    import re
    m = re.fullmatch(r"v(\d+)x(\d+)(?:j(\d+))?(?:p(\d+))?", name)
    if m:
        nx, ny = int(m.group(1)), int(m.group(2))
        jit = int(m.group(3) or 20) / 100.0
        pat = int(m.group(4) or 0)
        return voronoi_base(nx, ny, jit, pat)
    m = re.fullmatch(r"(square|brick|hex)(\d+)x(\d+)", name)
    if m:
        f = {"square": T.square_polys, "brick": T.brick_polys, "hex": T.hex_polys}[m.group(1)]
        return T.polygons_at(f(int(m.group(2)), int(m.group(3))))
    m = re.fullmatch(r"raw(\d+)x(\d+)j(\d+)p(\d+)", name)
    if m:
        # unfiltered bounded Voronoi tissue of one specific site pattern (used where a particular geometry is wanted)
        return T.voronoi_at(T.hex_sites(int(m.group(1)), int(m.group(2)), int(m.group(3)) / 100.0, int(m.group(4))))
    if name == "lens":
        return T.lens_at(0.8)
    m = re.fullmatch(r"(.+)\+lens(\d+)", name)
    if m:
        # <base>+lens<n>: a lens cell squeezed into the n-th interface of <base> whose two ends are both interior junctions
        # (three cells each); the tissue stays in exact force balance
        at = get(m.group(1))
        jc = T.junction_cells(at)
        cand = [ii for ii, it in enumerate(at["I"]) if it["L"] is not None and it["R"] is not None and it["phi"] == 0.0
                and len(jc[it["a"]]) >= 3 and len(jc[it["b"]]) >= 3]
        return T.add_lens(at, cand[int(m.group(2)) % len(cand)], 0.8)
    m = re.fullmatch(r"hex(\d+)x(\d+)\+loose", name)
    if m:
        # a hexagonal patch plus ONE detached cell (no vertex shared with the patch): a small hexagon whose nearest corner lies a quarter
        # of a cell side away from the border junction with the largest x
        polys = T.hex_polys(int(m.group(1)), int(m.group(2)))
        at0 = T.polygons_at(polys)
        deg = T.junction_degree(at0)
        jx, jy = max((tuple(at0["J"][j]) for j in at0["J"] if deg[j] >= 3), key=lambda p: (p[0], p[1]))
        r = 0.45
        cx, cy = jx + 0.25 + r, jy
        loose = [(cx + r * math.cos(math.pi + i * math.pi / 3), cy + r * math.sin(math.pi + i * math.pi / 3)) for i in range(6)]
        return T.polygons_at(polys + [loose])
    m = re.fullmatch(r"fan(\d+)", name)
    if m:
        return T.polygons_at(T.fan_polys(int(m.group(1))))
    m = re.fullmatch(r"wheel(\d+)", name)
    if m:
        # n triangles around a centre, no outer ring: every outer junction is a border junction of two cells
        return T.polygons_at(T.fan_polys(int(m.group(1)), ring=False))
    raise KeyError(name)
