"""Per (junction, interface) analysis of an assembled force matrix against the library's own fitted centres:
is the coefficient pair the dot-oriented unit tangent (ok), the per-component sign-forced one (f1), or something else."""
import math

import numpy as np

from . import fsutil


def unit(z):
    return z / abs(z)


def pair_status(frame, fm, info, cols, fit):
    """returns {(jid, iidx): {"pair": complex, "exp": complex, "status": "ok"|"f1"|"other"}}"""
    import forsys.virtual_edges as ve
    out = {}
    jid_of = {vid: j for j, vid in info["jvid"].items()}
    M = np.asarray(fm.matrix, float)
    for vid, r in fm.map_vid_to_row.items():
        j = jid_of.get(vid, "v%s" % vid)
        for n, ii in enumerate(cols):
            pair = complex(M[r, n], M[r + 1, n])
            if pair == 0:
                continue
            be = frame.big_edges[frame.big_edges_list.index(list(fm.big_edges_to_use[n]))]
            pts = [complex(x.x, x.y) for x in be.vertices]
            if be.vertices[0].id != vid:
                pts = pts[::-1]
            chord = pts[1] - pts[0]
            with np.errstate(all="ignore"):
                span = pts[-1] - pts[0]
                straight = len(pts) < 3 or max(abs((p - pts[0]).real * span.imag - (p - pts[0]).imag * span.real) for p in pts) <= 1e-9 * abs(span) ** 2
                if straight:
                    exp = unit(chord)
                else:
                    with fsutil.quiet():
                        xc, yc = ve.calculate_circle_center(be.vertices, method=fit)
                    exp = unit(1j * (pts[0] - complex(xc, yc)))
                    if exp.real * chord.real + exp.imag * chord.imag < 0:
                        exp = -exp
                sgn = [1.0 if chord.real == 0 else math.copysign(1.0, chord.real), 1.0 if chord.imag == 0 else math.copysign(1.0, chord.imag)]
                pred = complex(abs(exp.real) * sgn[0], abs(exp.imag) * sgn[1])
                if abs(pair - exp) <= 1e-11:
                    st = "ok"
                elif not straight and abs(pair - pred) <= 1e-11:
                    st = "f1"
                else:
                    st = "other"
            out[(j, ii)] = {"pair": pair, "exp": exp, "status": st}
    return out


def circle_through(a, b, c):
    """centre of the circle through three complex points (None if collinear)"""
    with np.errstate(all="ignore"):
        w = (c - a) / (b - a)
        if abs(w.imag) < 1e-300:
            return None
        return (b - a) * (w - abs(w) ** 2) / (2j * w.imag) + a


def dlite_underconverged(pts, centre):
    """F22 mechanism: True if the least-squares cost (spread of the distances to the centre) at the library's centre is
    clearly above the cost at the circle through the first, middle and last point, i.e. leastsq stopped before the optimum"""
    with np.errstate(all="ignore"):
        ref = circle_through(pts[0], pts[len(pts) // 2], pts[-1])
        if ref is None:
            return False

        def cost(c):
            d = np.array([abs(p - c) for p in pts])
            return float(((d - d.mean()) ** 2).sum())
        scale = abs(pts[-1] - pts[0]) ** 2
        return cost(centre) > 10 * cost(ref) + 1e-16 * scale


def dlite_underconverged_generic(pts, centre, factor=1.001):
    """same mechanism for interfaces that are no exact arcs: the library's centre is compared with a local minimiser of the very
    same objective (spread of the distances to the centre), started at the library's centre and run to tight tolerances"""
    import scipy.optimize as sco
    with np.errstate(all="ignore"):
        xs = np.array([p.real for p in pts])
        ys = np.array([p.imag for p in pts])
        size = max(xs.max() - xs.min(), ys.max() - ys.min(), 1e-300)

        def res(c):
            d = np.sqrt((xs - c[0]) ** 2 + (ys - c[1]) ** 2)
            return d - d.mean()
        c0 = np.array([centre.real, centre.imag])
        f0 = float((res(c0) ** 2).sum())
        best = f0
        for start in (c0, np.array([xs.mean(), ys.mean()]) + 50 * size * np.array([-(ys[-1] - ys[0]), xs[-1] - xs[0]]) / size,
                      np.array([xs.mean(), ys.mean()]) - 50 * size * np.array([-(ys[-1] - ys[0]), xs[-1] - xs[0]]) / size):
            try:
                r = sco.least_squares(res, start, xtol=1e-15, ftol=1e-15, gtol=1e-15, x_scale=size, max_nfev=400)
                best = min(best, float(2 * r.cost))
            except Exception:
                pass
        return f0 > factor * best + 1e-20 * size ** 2
