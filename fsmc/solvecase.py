"""Shared driver: build a tissue, run the real static/dynamic tension inference, collect observations."""
import cmath
import math

import numpy as np

from . import tissue as T, fsutil
from .ref import tangent as RT, nnls as RN


def extent_of(at):
    xs = [p[0] for p in at["J"].values()]
    ys = [p[1] for p in at["J"].values()]
    return max(max(xs) - min(xs), max(ys) - min(ys))


def make_cmap(mobspec, theta=0.0, trans=(0, 0), scale=1.0, extent=1.0):
    """mobspec: ["id"] | ["idc"] | ["m", re, im] | ["mc", re, im]  (c = complex parameter of z/(cz+1), per 4 length units)"""
    ops = []
    if mobspec[0] in ("m", "mc"):
        ops.append(T.mob(complex(mobspec[1], mobspec[2]) / max(extent / 4.0, 1.0)))
    if mobspec[0] in ("mc", "idc"):
        ops.append(T.CONJ)
    ops.append(T.aff(scale * cmath.exp(1j * theta), complex(trans[0], trans[1]) * extent * scale))
    return T.CMap(ops)


def lab_for(vm):
    """vertex labelling spec -> labelling dict; ["stored_rev"] = ids reversed AND vertices stored in ascending id order (every
    loop over the vertex dict then runs backwards with respect to the natural order)"""
    if vm == ["stored_rev"]:
        return {"vmap": ["rev"], "vorder": "id"}
    return {"vmap": vm}


def noise_post(amp, pattern):
    """smooth, deterministic, non-conformal deformation of all points (makes a non-equilibrium tissue)"""
    ph = [0.0, 1.3, 2.1, 4.4][pattern % 4]
    kx, ky = [(1.7, 2.3), (2.9, 1.1), (0.9, 3.1), (2.2, 2.6)][pattern % 4]

    def f(z):
        return z + amp * complex(math.sin(kx * z.imag + ph), math.cos(ky * z.real + 0.7 * ph))

    def post(jpos, ipts):
        return {j: f(z) for j, z in jpos.items()}, [[f(z) for z in pts] for pts in ipts]
    return post


def bump_post(at, j, dz):
    """move junction j by dz and shear the interfaces ending there linearly (one strongly unbalanced junction)"""
    def post(jpos, ipts):
        out = []
        for ii, pts in enumerate(ipts):
            it = at["I"][ii]
            n = len(pts) - 1
            if it["a"] == j:
                pts = [p + dz * (1 - m / n) for m, p in enumerate(pts)]
            elif it["b"] == j:
                pts = [p + dz * (m / n) for m, p in enumerate(pts)]
            out.append(pts)
        jp = dict(jpos)
        jp[j] = jpos[j] + dz
        return jp, out
    return post


class Solved:
    pass


def column_interfaces(frame, fm, info, at):
    """abstract interface index of every unknown (column) of the force matrix, or None"""
    mb = T.match_big_edges(frame, info, at)
    out = []
    for el in fm.big_edges_to_use:
        try:
            beid = frame.big_edges_list.index(list(el))
        except ValueError:
            out.append(None)
            continue
        path = mb.get(beid)
        out.append(path[0][0] if path and len(path) == 1 else None)
    return out


def _resolve_kwargs(solve_kwargs, frame):
    """solver keyword arguments; an 'initial_condition' given as a spec is turned into a vector of the frame's size:
    ["ones"] | ["zero_at", i] (ones with an exact zero at position i) | ["ramp"]"""
    kw = dict(solve_kwargs or {})
    ic = kw.get("initial_condition")
    if isinstance(ic, (list, tuple)) and ic and isinstance(ic[0], str):
        n = len(frame.internal_big_edges)
        if ic[0] == "ones":
            kw["initial_condition"] = np.ones(n)
        elif ic[0] == "zero_at":
            x0 = np.ones(n)
            if n:
                x0[ic[1] % n] = 0.0
            kw["initial_condition"] = x0
        elif ic[0] == "zero_every":
            x0 = np.ones(n)
            x0[ic[2] % max(ic[1], 1)::ic[1]] = 0.0
            kw["initial_condition"] = x0
        elif ic[0] == "ramp":
            kw["initial_condition"] = np.linspace(0.5, 1.5, n)
    return kw


def solve_static(at, k=3, cmap=None, fit="dlite", method=None, allow_negatives=False, lab=None, post=None, resample=None,
                 angle_limit=np.inf, solve_kwargs=None, metadata=None):
    """returns Solved with: frame, forsys, fm, info, exc (exception or None), warnings (list of str), forces (list) ..."""
    import forsys as fs
    import forsys.virtual_edges as ve
    r = Solved()
    r.exc = None
    r.warnings = []
    with fsutil.quiet():
        v, e, c, info = T.realise(at, k=k, cmap=cmap, lab=lab, post=post)
        if resample is not None:
            v, e, c, _ = ve.generate_mesh(v, e, c, ne=resample[0], replace_short_edges=resample[1])
        frame = T.frame_of(v, e, c)
        s = fs.ForSys({0: frame})
    r.vertices, r.edges, r.cells, r.info, r.frame, r.forsys = v, e, c, info, frame, s
    try:
        with fsutil.quiet() as w:
            s.build_force_matrix(when=0, circle_fit_method=fit, angle_limit=angle_limit, metadata=metadata or {})
            r.fm = s.force_matrices[0]
            r.M = np.array(r.fm.matrix, float)
            kw = _resolve_kwargs(solve_kwargs, frame)
            if method is not None:
                kw["method"] = method
            s.solve_stress(when=0, allow_negatives=allow_negatives, **kw)
        r.warnings = [str(x.message) for x in w]
    except Exception as ex:  # library exception = observation
        r.exc = ex
        r.fm = s.force_matrices.get(0)
        return r
    r.forces = [float(s.forces[0][i]) for i in range(len(s.forces[0]))]
    r.record = getattr(r.fm, "_verif_record", None)
    r.cols = column_interfaces(frame, r.fm, info, at)
    return r


def build_series(frames_spec, cm=False, initial_guess=None):
    """frames_spec: list of dicts(at, k, cmap, lab, post, time). Returns (forsys, [infos], exc)"""
    import forsys as fs
    frames = {}
    infos = []
    with fsutil.quiet():
        for t, sp in enumerate(frames_spec):
            v, e, c, info = T.realise(sp["at"], k=sp.get("k", 3), cmap=sp.get("cmap"), lab=sp.get("lab"), post=sp.get("post"))
            frames[t] = T.frame_of(v, e, c, fid=t, time=sp.get("time", float(t)))
            infos.append(info)
    try:
        with fsutil.quiet():
            if initial_guess is None:
                s = fs.ForSys(frames, cm=cm)
            else:
                s = fs.ForSys(frames, cm=cm, initial_guess=initial_guess)
    except Exception as ex:
        return None, infos, ex
    return s, infos, None


def solve_frame(s, t, at, info, fit="dlite", method=None, allow_negatives=False, angle_limit=np.inf, solve_kwargs=None, rebuild=True):
    """rebuild=False: solve on the force matrix that an earlier call left on the object"""
    r = Solved()
    r.exc = None
    r.warnings = []
    r.forsys, r.frame, r.info = s, s.frames[t], info
    try:
        with fsutil.quiet() as w:
            if rebuild:
                s.build_force_matrix(when=t, circle_fit_method=fit, angle_limit=angle_limit)
            r.fm = s.force_matrices[t]
            r.M = np.array(r.fm.matrix, float)
            kw = _resolve_kwargs(solve_kwargs, s.frames[t])
            if method is not None:
                kw["method"] = method
            s.solve_stress(when=t, allow_negatives=allow_negatives, **kw)
        r.warnings = [str(x.message) for x in w]
    except Exception as ex:
        r.exc = ex
        r.fm = s.force_matrices.get(t)
        return r
    r.forces = [float(s.forces[t][i]) for i in range(len(s.forces[t]))]
    r.record = getattr(r.fm, "_verif_record", None)
    r.cols = column_interfaces(r.frame, r.fm, info, at)
    return r


def displace_post(at, dz):
    """move every junction j by dz[j] (complex, default 0) and shear each interface linearly between its ends"""
    def post(jpos, ipts):
        out = []
        for ii, pts in enumerate(ipts):
            it = at["I"][ii]
            n = len(pts) - 1
            da, db = dz.get(it["a"], 0j), dz.get(it["b"], 0j)
            out.append([p + da * (1 - m / n) + db * (m / n) for m, p in enumerate(pts)])
        return {j: z + dz.get(j, 0j) for j, z in jpos.items()}, out
    return post
