"""C08 — interfaces partition the mesh edges; internal/external classification is exact.

State space: connected sub-tissues of a base, grown one adjacent cell at a time (BFS from every single
cell, de-duplicated: every connected subset is a state, every "add an adjacent cell" a transition),
times points-per-interface k, plus the transition "resample with generate_mesh(ne)".
Oracle in every state: reference path decomposition of the mesh graph + the single internal predicate.
Oracle on every grow edge: the internal interfaces of the smaller tissue (as point sequences) are
still internal interfaces of the larger one. Oracle on every resample edge: same internal interfaces
(as end-point pairs + cell pairs) before and after.
"""
import numpy as np

from fsmc import bases, tissue as T, fsutil
from fsmc.ref import decomp

import os
REPO = os.environ.get("FORSYS_REPO", "/repo")
PID = "C08"
RULE = ("states = (connected sub-tissue, k, resampled?) reached by adding one adjacent cell at a time from every single cell, "
        "de-duplicated on the cell set; non-trivial = has at least one junction; distinct classes = distinct "
        "(cells, interfaces, internal interfaces, k, ne) signatures")
BOUND = {"quick": "all connected sub-tissues of an 8..9-cell Voronoi base and of square3x3/brick (fixpoint), k in {0,1,2,5} and mixed per-interface counts (incl. a two-sided cell with one straight side), ne in {2,6}; 12 parser meshes as parsed and resampled (generated dump, WKT, tessellation, rasterised skeletons: plain, parsed with reduce_amount, with one staircase corner, with a detached pair of cells; pinched WKT polygons; a shipped dump)",
         "thorough": "all connected sub-tissues of 11- and 12-cell bases and the hand-built maps (fixpoint), k in {0,1,2,5,15}, ne in {2,6}; 44 parser meshes (generated dumps, WKT, tessellations, rasters, shipped dumps and skeleton) as parsed and resampled"}
ASSUMPTIONS = ["cell membership of a vertex is taken from the cells' vertex cycles (reference), not from Vertex.ownCells",
               "sub-tissues are connected through shared interfaces; tissues whose cells touch only at a point are not generated"]
REQUIRED_TAGS = {"all": ["has_internal", "has_external", "single_cell", "resampled", "lookup_checked", "parser:se", "parser:wkt", "parser:tess", "parser:raster", "parser:se_file"]}


def check_frame(vertices, edges, cells, frame):
    """returns (violations, facts)"""
    viol = []
    known = []
    cyc = {cid: [v.id for v in c.vertices] for cid, c in cells.items()}
    vcells = decomp.cells_of_vertex(cyc)
    mesh = fsutil.mesh_graph(edges)
    paths, junc = decomp.maximal_paths(mesh)
    got = [tuple(int(x) for x in b) for b in frame.big_edges_list]
    canon = [min(t, t[::-1]) for t in got]
    if len(set(canon)) != len(canon):
        viol.append({"what": "an interface is listed twice (possibly reversed)", "detail": [c for c in canon if canon.count(c) > 1][:2]})
    if set(canon) != paths:
        viol.append({"what": "interfaces differ from the maximal junction-to-junction paths of the mesh graph",
                     "detail": {"extra": sorted(set(canon) - paths)[:3], "missing": sorted(paths - set(canon))[:3]}})
    # every mesh edge of a cell that has a junction lies in exactly one interface
    cover = {}
    for t in got:
        for i in range(len(t) - 1):
            k = (min(t[i], t[i + 1]), max(t[i], t[i + 1]))
            cover[k] = cover.get(k, 0) + 1
    for cid, c in cyc.items():
        if not any(v in junc for v in c):
            continue
        n = len(c)
        for i in range(n):
            k = (min(c[i], c[(i + 1) % n]), max(c[i], c[(i + 1) % n]))
            if cover.get(k, 0) != 1:
                viol.append({"what": "a mesh edge of a cell with a junction lies in %d interfaces" % cover.get(k, 0), "detail": [cid, k]})
                break
    # classification
    exp_internal = [i for i, t in enumerate(got) if decomp.is_internal(t, vcells)]
    got_internal = [be.big_edge_id for be in frame.internal_big_edges]
    if got_internal != exp_internal:
        viol.append({"what": "Frame.internal_big_edges differs from the reference predicate", "detail": {"got": got_internal[:20], "exp": exp_internal[:20]}})
    if [list(x) for x in frame.internal_big_edges_vertices] != [list(got[i]) for i in exp_internal]:
        viol.append({"what": "Frame.internal_big_edges_vertices differs from the reference predicate"})
    ext_flag = sorted(be.big_edge_id for be in frame.big_edges.values() if be.external)
    exp_ext = sorted(set(range(len(got))) - set(exp_internal))
    if ext_flag != exp_ext:
        viol.append({"what": "BigEdge.external differs from the reference predicate", "detail": {"got": ext_flag[:20], "exp": exp_ext[:20]}})
    if sorted(frame.get_external_edges_ids()) != exp_ext:
        viol.append({"what": "get_external_edges_ids() differs from the reference predicate"})
    # external_edges_id is the "some vertex has < 2 cells" half of the predicate
    exp_border = sorted(i for i, t in enumerate(got) if any(len(vcells.get(v, ())) < 2 for v in t))
    if sorted(frame.external_edges_id) != exp_border:
        viol.append({"what": "Frame.external_edges_id differs from 'some vertex belongs to fewer than two cells'",
                     "detail": {"got": sorted(frame.external_edges_id)[:20], "exp": exp_border[:20]}})
    df, ex1 = fsutil.call(frame.get_tensions)
    dfa, ex2 = fsutil.call(frame.get_tensions, with_border=True)
    if ex1 is not None or ex2 is not None:
        # a frame without any interface has no table to build (pandas raises on the empty frame):
        # nothing is promised for it, no verdict
        if len(got) != 0:
            viol.append({"what": "get_tensions raised", "detail": fsutil.exc_str(ex1 or ex2)})
    else:
        if [int(x) for x in df["id"]] != exp_internal:
            viol.append({"what": "get_tensions() does not tabulate exactly the internal interfaces", "detail": {"got": [int(x) for x in df["id"]][:20], "exp": exp_internal[:20]}})
        if [int(x) for x in dfa["id"]] != list(range(len(got))):
            viol.append({"what": "get_tensions(with_border=True) does not tabulate every interface in order"})
    pair_count = {}
    for i in exp_internal:
        be = frame.big_edges[i]
        beside = decomp.cells_beside(got[i], cyc)
        if (len(got[i]) == 2 and len(beside) == 1 and set(be.own_cells) == beside
                and any(len(vcells.get(v, ())) >= 3 and sum(1 for m in mesh if v in m) >= 4 for v in got[i])):
            # F16: a two-point interface on the tissue border between a >=4-fold junction (3 cells) and a
            # junction of 2 cells satisfies the vertex-membership predicate although only one cell borders it
            known.append({"id": "F16", "path": list(got[i])})
        elif len(be.own_cells) != 2 or set(be.own_cells) != beside:
            viol.append({"what": "internal interface does not separate exactly the two cells on either side", "detail": {"path": got[i][:6], "own_cells": list(be.own_cells), "beside": sorted(beside)}})
        else:
            pair_count[frozenset(be.own_cells)] = pair_count.get(frozenset(be.own_cells), 0) + 1
    looked = 0
    for i in exp_internal:
        be = frame.big_edges[i]
        if len(got[i]) < 3 or len(be.own_cells) != 2 or pair_count.get(frozenset(be.own_cells)) != 1:
            continue
        a, b = be.own_cells
        for (x, y) in ((a, b), (b, a)):
            res, ex = fsutil.call(frame.get_big_edge_by_cells, x, y)
            looked += 1
            if ex is not None or res is not be:
                viol.append({"what": "get_big_edge_by_cells does not return the interface between the two cells",
                             "detail": {"cells": [x, y], "got": fsutil.exc_str(ex) if ex else res.big_edge_id, "exp": i}})
    facts = {"n_if": len(got), "n_int": len(exp_internal), "n_ext": len(exp_ext), "junctions": len(junc), "looked": looked,
             "internal_phys": sorted((tuple(sorted(frame.big_edges[i].own_cells)), ) for i in exp_internal)}
    return viol, known, facts


class SubTissues:
    chunk = 16

    def __init__(self, base, ks, nes):
        self.base = base
        self.name = "subtissues:%s" % base
        self.at = bases.get(base)
        self.adj = T.cell_adjacency(self.at)
        self.ks = ks
        self.nes = nes
        self.bound = len(self.at["C"]) + 1
        self.expand_outdom = True

    def initial(self):
        return [{"cells": [c], "k": k, "rs": None} for c in sorted(self.at["C"], key=int) for k in self.ks]

    def actions(self, d):
        if d["rs"] is not None:
            return []
        S = set(d["cells"])
        nb = sorted({y for x in S for y in self.adj[x]} - S, key=int)
        acts = [["add", c] for c in nb]
        acts += [["resample", ne] for ne in self.nes]
        return acts

    def step(self, d, a):
        if a[0] == "add":
            return {"cells": sorted(d["cells"] + [a[1]], key=int), "k": d["k"], "rs": None}
        return {"cells": d["cells"], "k": d["k"], "rs": a[1]}

    def evaluate(self, d):
        import forsys.virtual_edges as ve
        sub = T.sub_tissue(self.at, d["cells"])
        ks = T.sample_counts(sub, d["k"])
        ends = {}
        for ii, it in enumerate(sub["I"]):
            if ks[ii] == 0:
                ends.setdefault(frozenset((it["a"], it["b"])), []).append(ii)
        if any(len(x) > 1 for x in ends.values()):
            # two two-point interfaces between the same pair of junctions are the same pair of vertices: not a planar mesh
            return {"key": "coincident|%s|%s" % (",".join(d["cells"]), d["k"]), "viol": [], "tags": ["lens_k0_outside"], "cls": "lens-k0", "outdom": True}
        v, e, c, info = T.realise(sub, k=d["k"])
        tags = []
        if len(set(ks)) > 1:
            tags.append("mixed_point_counts")
        key = "%s|%s|%s|%s" % (self.base, ",".join(d["cells"]), d["k"], d["rs"])
        if d["rs"] is not None:
            with fsutil.quiet():
                res, ex = fsutil.call(ve.generate_mesh, v, e, c, ne=d["rs"], replace_short_edges=False)
            if ex is not None:
                return {"key": key, "viol": [{"what": "generate_mesh raised on a sub-tissue", "detail": fsutil.exc_str(ex)}], "tags": tags, "cls": "exc", "obs": None}
            v, e, c, _ = res
            tags.append("resampled")
        with fsutil.quiet():
            frame, ex = fsutil.call(T.frame_of, v, e, c)
        if ex is not None:
            return {"key": key, "viol": [{"what": "Frame construction raised on a sub-tissue (its interfaces cannot be decomposed)", "detail": fsutil.exc_str(ex)}],
                    "tags": tags, "cls": "exc", "obs": None}
        viol, known, facts = check_frame(v, e, c, frame)
        if facts["n_int"]:
            tags.append("has_internal")
        if facts["n_ext"]:
            tags.append("has_external")
        if len(d["cells"]) == 1:
            tags.append("single_cell")
        if facts["looked"]:
            tags.append("lookup_checked")
        # physical identity of internal interfaces: (abstract cell pair, coordinates of both ends)
        inv_cell = {fid: cid for cid, fid in info["cellid"].items()}
        phys = []
        for be in frame.internal_big_edges:
            ends = sorted([(be.vertices[0].x, be.vertices[0].y), (be.vertices[-1].x, be.vertices[-1].y)])
            if len(be.own_cells) == 2:
                phys.append([sorted(inv_cell.get(x, "?") for x in be.own_cells), ends])
        phys.sort()
        key = "%s|%s|%s|%s" % (self.base, ",".join(d["cells"]), d["k"], d["rs"])
        cls = "%d/%d/%d/%d/%s/%s" % (len(d["cells"]), facts["n_if"], facts["n_int"], facts["junctions"], d["k"], d["rs"])
        return {"key": key, "viol": viol, "known": known, "tags": tags, "cls": cls, "nontrivial": facts["junctions"] > 0, "obs": {"phys": phys}}

    def check_edge(self, d, a, d2, r, r2):
        viol = []
        if not r.get("obs") or not r2.get("obs"):
            return [], []          # one side is outside the statement (coincident two-point interfaces)
        p1 = [tuple(map(str, x)) for x in r["obs"]["phys"]]
        p2 = [tuple(map(str, x)) for x in r2["obs"]["phys"]]
        if a[0] == "add":
            lost = sorted(set(p1) - set(p2))
            if lost:
                viol.append({"what": "an internal interface stopped being internal when a cell was added", "detail": lost[:3]})
        else:
            if p1 != p2:
                viol.append({"what": "resampling changed the set of internal interfaces (cell pair, end points)",
                             "detail": {"before_only": sorted(set(p1) - set(p2))[:3], "after_only": sorted(set(p2) - set(p1))[:3]}})
        return viol, []


class ParserMeshes:
    """meshes coming out of every parser (Surface Evolver dump, WKT, tessellation, rasterised skeleton, shipped files), as parsed and
    after resampling: the same decomposition / classification oracle"""
    chunk = 2
    bound = 1

    def __init__(self, sources, nes):
        self.name = "parser-meshes"
        self.sources = sources
        self.nes = nes

    def initial(self):
        return [{"s": i, "rs": None} for i in range(len(self.sources))]

    def actions(self, d):
        return [["resample", ne] for ne in self.nes] if d["rs"] is None else []

    def step(self, d, a):
        return {"s": d["s"], "rs": a[1]}

    def evaluate(self, d):
        import forsys.virtual_edges as ve
        from checks import c09
        src = self.sources[d["s"]]
        try:
            with fsutil.quiet():
                v, e, c = c09.initial_mesh(src)
                if d["rs"] is not None:
                    v, e, c, _ = ve.generate_mesh(v, e, c, ne=d["rs"], replace_short_edges=False)
                frame = T.frame_of(v, e, c)
        except Exception as ex:
            return {"viol": [{"what": "parsing / resampling / frame construction raised", "detail": {"source": src, "exc": fsutil.exc_str(ex)}}], "tags": [], "cls": "exc"}
        viol, known, facts = check_frame(v, e, c, frame)
        tags = ["parser:%s" % src[0]] + (["resampled"] if d["rs"] is not None else []) + (["has_internal"] if facts["n_int"] else []) + \
               (["has_external"] if facts["n_ext"] else []) + (["lookup_checked"] if facts["looked"] else [])
        return {"viol": viol, "known": known, "tags": tags, "cls": "%s/%s/%d/%d" % (src[0], d["rs"], facts["n_if"], facts["n_int"]),
                "obs": {"n_int": facts["n_int"]}, "nontrivial": facts["junctions"] > 0}

    def check_edge(self, d, a, d2, r, r2):
        if r.get("obs") and r2.get("obs") and r["obs"]["n_int"] != r2["obs"]["n_int"]:
            return [{"what": "resampling changed the number of internal interfaces of a parsed mesh", "detail": [r["obs"]["n_int"], r2["obs"]["n_int"]]}], []
        return [], []


def build(tier, seed):
    if tier == "quick":
        return [SubTissues("v5x4", [0, 1, 2, 5, ["mod3", 0, 2, 1]], [2, 6]),
                SubTissues("v5x5", [0, 2], [3]),
                SubTissues("square3x3", [0, 2], [2]),
                SubTissues("lens", [1, 2, 4, ["mod3", 0, 2, 1], ["mod3", 3, 0, 0], ["mod3", 1, 0, 3]], [2, 3]),
                SubTissues("v4x4p%d" % (seed + 1), [1, 3], [3]),
                ParserMeshes([["se", "v5x4", None, 2], ["se", "v5x5", None, 0], ["wkt", "v5x4", None, 1], ["tess", 5, 4, seed + 1, 40.0],
                              ["raster", [5, 4, 15, 0, 40], True], ["se_file", REPO + "/tests/data/furrow_gauss_velocity/stage0.dmp"],
                              # skeletons parsed with reduce_amount (collinear pixels dropped while parsing: edges are re-pointed and removed),
                              # with one staircase corner (the parser merges it), with a detached pair of cells; pinched WKT polygons
                              ["raster", [5, 4, 15, 0, 40], True, "reduce"], ["raster", [4, 4, 0, 0, 30], True, "reduce"], ["raster_corner", [5, 4, 15, 0, 40], 7],
                              ["raster_corner", [5, 4, 15, 0, 40], 101], ["raster_iso", [5, 4, 15, 0, 40], "two"], ["wkt_pinch", 0.004, [800.0, 600.0]]], [3, 6])]
    return [SubTissues("v5x5", [0, 1, 2, 5, 15, ["mod3", 0, 2, 1], ["mod3", 16, 0, 3]], [2, 6]),
            SubTissues("v6x5", [0, 2, 5], [2, 6]),
            SubTissues("brick4x3", [0, 1, 2], [2]),
            SubTissues("square3x3", [0, 1, 2, 5, ["mod3", 0, 2, 1]], [2, 6]),
            SubTissues("hex3x3", [0, 1, 3], [2, 6]),
            SubTissues("lens", [1, 2, 3, 4, 7, ["mod3", 0, 2, 1], ["mod3", 3, 0, 0], ["mod3", 1, 0, 3], ["mod3", 0, 0, 5]], [2, 3, 6]),
            SubTissues("v5x4p%d" % (seed + 1), [0, 1, 2, 5], [2, 6]),
            ParserMeshes([["se", "v5x4", None, 2], ["se", "v5x5", None, 0], ["se", "v6x5", None, 5], ["wkt", "v5x4", None, 1], ["wkt", "v5x5", None, 3],
                          ["tess", 5, 4, seed + 1, 40.0], ["tess", 7, 6, seed + 2, 1000.0], ["raster", [5, 4, 15, 0, 40], True], ["raster", [6, 5, 15, 1, 44], True],
                          ["se_file", REPO + "/tests/data/furrow_gauss_velocity/stage0.dmp"], ["se_file", REPO + "/tests/data/12_12/step_20.dmp"],
                          ["se_file", REPO + "/tests/data/initial_furrow.dmp"], ["skeleton", REPO + "/tests/data/test_nonzero.tif"],
                          ["raster", [5, 4, 15, 0, 40], True, "reduce"], ["raster", [4, 4, 0, 0, 30], True, "reduce"], ["raster", [6, 5, 15, 1, 44], True, "reduce"],
                          ["skeleton", REPO + "/tests/data/experimental/exp_1.tif", "reduce"], ["raster_iso", [5, 4, 15, 0, 40], "two"], ["wkt_pinch", 0.004, [800.0, 600.0]]]
                         + [["raster_corner", [5, 4, 15, 0, 40], i] for i in range(0, 220, 9)], [2, 3, 6, 12])]
