"""C01 — static inference recovers the tensions of any tissue in force balance.

Equilibrium tissues with analytically known tensions (Voronoi + Maxwell reciprocal, Moebius images) are
pushed through the real pipeline (Frame -> [generate_mesh] -> build_force_matrix -> solve_stress) for every
configuration within a deviation bound of a centre, and for every connected sub-tissue of a base.
Oracle in three steps: (i) assembled matrix = analytic matrix within the fit budget (mismatches must be
explained by the sign-forcing mechanism F1); (ii) the reported vector is the certified optimum for the
assembled matrix; (iii) reported tensions = T/mean(T) within the perturbation bound implied by the
measured matrix error and the conditioning of the reference system.
"""
import cmath
import math

import numpy as np

from fsmc import bases, tissue as T, fsutil, solvecase as SC, pairs
from fsmc.explorer import ProductSystem, ListSystem
from fsmc.ref import tangent as RT, nnls as RN
from checks import c02

PID = "C01"
RULE = ("configurations of (base, Moebius map, rotation, translation, scale, k, resampling, solver, fit) within the deviation bound of a centre; "
        "all connected sub-tissues of a base. non-trivial = unique up to scale (nullity 1) with at least one junction; classes = (base, map, k, ne, solver, fit)")
BOUND = {"quick": "deviation bound d=2 around the centre of 2 bases (+1 seeded), all connected sub-tissues of an 11-cell base (3 configurations each, one with the library's default allow_negatives); point counts 0..16 per interface and mixed per-interface counts; one major-arc family; d=1 around two tissues with a lens cell (two interfaces sharing both end junctions) kept in exact force balance; second inferences after an in-place translation and after resampling the same objects",
         "thorough": "d=3 on one base, d=2 on three, full product k x ne x solver x fit on one base, all sub-tissues of a 12-cell base (5 configurations); d=2 around three tissues with a lens cell"}
ASSUMPTIONS = ["tolerance(iii) = 10 x (measured max coefficient error) x sqrt(nnz) x |z| / sigma_min(reference augmented system) + solver term (1e-8 default path, 2e-4/sigma_min iterative back-ends)",
               "instances where force balance does not determine the tensions up to scale (nullity != 1) give no verdict",
               "with k=0 resampling is taken with replace_short_edges=False (contracting border edges moves the far end of inferred interfaces)",
               "a two-point interface of a Moebius image is a chord, not an arc: k=0 is only combined with straight tissues"]
REQUIRED_TAGS = {"all": ["verdict", "resampled", "solver:lsq", "solver:lsq_linear", "fit:taubinSVD", "straight", "curved", "path:inv", "path:nnls-fallback", "subtissue_verdict", "major_arc", "mixed_point_counts", "verdict_with_negatives_allowed", "live_translation", "after_other_objects", "live_resample"]}


def judge(at, cm, r, method, fit, viol, known, tags, neg=False):
    with fsutil.ref_math():
        ref = RT.reference_system(at, cm)
        if not ref["rows"] or not ref["cols"]:
            tags.append("vacuous:no_junction")
            return False
        if RT.nullity(ref["M"]) != 1:
            tags.append("vacuous:not_unique_up_to_scale")
            return False
        Tt = RT.true_tensions(at, ref["cols"])
        if r.exc is not None:
            viol.append({"what": "static inference raised on an equilibrium tissue", "detail": fsutil.exc_str(r.exc)})
            return True
        if None in r.cols or sorted(r.cols) != sorted(ref["cols"]):
            viol.append({"what": "unknowns are not the internal interfaces", "detail": {"got": r.cols[:20], "exp": ref["cols"][:20]}})
            return True
        # permute the reference to the library's row / column order
        jid_of = {vid: j for j, vid in r.info["jvid"].items()}
        rows_got = {jid_of.get(vid): row for vid, row in r.fm.map_vid_to_row.items()}
        if set(rows_got) != set(ref["rows"]):
            viol.append({"what": "junction equations differ from the reference", "detail": {"got": sorted(map(str, rows_got))[:20], "exp": ref["rows"][:20]}})
            return True
        cpos = {ii: n for n, ii in enumerate(ref["cols"])}
        P = np.zeros_like(ref["M"])
        for rj, j in enumerate(ref["rows"]):
            for n, ii in enumerate(r.cols):
                P[rows_got[j], n] = ref["M"][2 * rj, cpos[ii]]
                P[rows_got[j] + 1, n] = ref["M"][2 * rj + 1, cpos[ii]]
        if P.shape != r.M.shape:
            viol.append({"what": "matrix shape differs from the reference", "detail": [list(P.shape), list(r.M.shape)]})
            return True
        tx = np.array([at["I"][ii]["T"] for ii in r.cols], float)
        tx = tx / tx.mean()
        x = np.array(r.forces, float)
        # ---- (i) matrix: per pair, against the analytic tangent with the fit budget of that interface;
        # a pair that equals the per-component sign-forced tangent (finding F1) is attributed to F1
        straight = all(o[0] != "mob" for o in cm.ops) and all(it["phi"] == 0.0 for it in at["I"])
        tg = T.tangents(at, cm)
        be_of = {}
        for n, el in enumerate(r.fm.big_edges_to_use):
            be_of[n] = r.frame.big_edges[r.frame.big_edges_list.index(list(el))]
        row_j = {row: j for j, row in rows_got.items()}
        E = 0.0
        f1 = 0
        f22 = 0
        for rr in range(0, r.M.shape[0], 2):
            jv = r.info["jvid"][row_j[rr]]
            for n in range(r.M.shape[1]):
                a = complex(P[rr, n], P[rr + 1, n])
                g = complex(r.M[rr, n], r.M[rr + 1, n])
                if a == 0:
                    if g != 0:
                        viol.append({"what": "non-zero coefficient where the interface does not end at the junction", "detail": {"row": rr, "col": n}})
                    continue
                be = be_of[n]
                pts = [complex(vv.x, vv.y) for vv in be.vertices]
                if be.vertices[0].id != jv:
                    pts = pts[::-1]
                chord = pts[1] - pts[0]
                ta, tb = tg[r.cols[n]]
                turning = abs(cmath.phase(-tb / ta))
                bud = c02.fit_budget(fit, turning, len(pts), straight)
                pred = complex(abs(a.real) * (1.0 if chord.real == 0 else math.copysign(1.0, chord.real)),
                               abs(a.imag) * (1.0 if chord.imag == 0 else math.copysign(1.0, chord.imag)))
                if abs(pred - a) > 1e-15 and abs(g - pred) <= bud and not (straight or len(pts) < 3):
                    f1 += 1
                    continue
                dgl = abs(g - a)
                if dgl > bud and fit == "dlite" and len(pts) >= 3 and not straight and turning < 0.1 and dgl < 0.08:
                    import forsys.virtual_edges as ve
                    with fsutil.quiet():
                        xc, yc = ve.calculate_circle_center(be.vertices, method=fit)
                    if pairs.dlite_underconverged(pts, complex(xc, yc)):
                        f22 += 1
                        continue
                E = max(E, dgl)
                if dgl > bud:
                    viol.append({"what": "assembled coefficient pair differs from the analytic unit tangent beyond the fit budget and is not explained by component sign forcing",
                                 "detail": {"row": rr, "col": n, "got": [g.real, g.imag], "analytic": [a.real, a.imag], "budget": bud, "npts": len(pts)}})
                    if len(viol) > 4:
                        return True
        if f1:
            known.append({"id": "F1", "flipped_pairs": f1})
        if f22:
            known.append({"id": "F22", "pairs": f22})
            f1 += f22      # no physics verdict on this instance
        # ---- (ii) the reported vector is the optimum for the assembled matrix
        A_fs, b_fs = RN.augment(r.M)
        lam = RN.best_multiplier(A_fs, b_fs, x)
        z = np.append(x, lam)
        R_x = float(np.linalg.norm(A_fs @ z - b_fs))
        zr = RN.lawson_hanson(A_fs, b_fs)
        R_ref = float(np.linalg.norm(A_fs @ zr - b_fs))
        if neg and np.all(np.isfinite(x)) and x.min() < -1e-9:
            # negatives were allowed (the library's default): the exact solution of a square system may be negative where the
            # assembled matrix is off (F1); no optimum verdict, the physics verdict below still applies where the matrix is right
            tags.append("negatives_allowed_and_returned")
            ok = True
        elif x.min() < -1e-9 or not np.all(np.isfinite(x)):
            viol.append({"what": "negative or non-finite tension reported", "detail": float(x.min())})
            return True
        elif method is None:
            ok = RN.kkt(A_fs, b_fs, z, 1e-8 * max(1.0, len(x)))["ok"]
        elif method == "lsq_linear" and not RN.consistent(r.M):
            ok = True       # normal-equation back-end: only promised on consistent systems
            tags.append("lsq_linear_inconsistent_no_verdict")
        else:
            ok = R_x ** 2 <= R_ref ** 2 * (1 + 1e-4) + (1e-5 * len(x)) ** 2
        if not ok:
            viol.append({"what": "reported tensions are not the non-negative least-squares optimum of the assembled system", "detail": {"R_x": R_x, "R_opt": R_ref, "method": method}})
            return True
        # ---- (iii) physics
        A_ref, b_ref = RN.augment(P)
        sv = np.linalg.svd(A_ref, compute_uv=False)
        full_rank = A_ref.shape[0] >= A_ref.shape[1] and sv.min() > 1e-9 * sv.max()
        err = float(np.abs(x - tx).max())
        if not full_rank:
            # F3: the multiplier column makes the augmented system under-determined although force balance is unique up to scale
            if err > 1e-6:
                known.append({"id": "F3", "err": err, "shape": list(A_ref.shape)})
            tags.append("F3_geometry")
            return True
        smin = float(sv.min())
        znorm = float(np.linalg.norm(np.append(tx, 0.0)))
        nnz = int((P != 0).sum())
        tol = 10 * E * math.sqrt(nnz) * znorm / smin + (1e-8 if method is None else 2e-4 / smin)
        if f1 == 0:
            tags.append("verdict")
            if err > tol:
                viol.append({"what": "reported tensions differ from true tension / mean true tension beyond the perturbation bound",
                             "detail": {"err": err, "tol": tol, "E": E, "smin": smin, "method": method, "fit": fit}})
        else:
            tags.append("F1_affected_no_physics_verdict")
        if f1 == 0:
            tags.append("err<1e-9" if err < 1e-9 else ("err<1e-6" if err < 1e-6 else ("err<1e-3" if err < 1e-3 else "err>=1e-3")))
        return True


def predicted_f1(at, k, cm):
    """number of (junction, internal interface) pairs whose analytic tangent and first chord disagree in the sign of
    exactly one component (where per-component sign forcing mirrors the tangent) - geometry only"""
    jpos, ipts = T.geometry(at, k, cm)
    tg = T.tangents(at, cm)
    n = 0
    for ii in T.internal_interfaces(at):
        pts = ipts[ii]
        if len(pts) < 3:
            continue
        for t, chord in ((tg[ii][0], pts[1] - pts[0]), (tg[ii][1], pts[-2] - pts[-1])):
            sx = (t.real > 0) == (chord.real >= 0)
            sy = (t.imag > 0) == (chord.imag >= 0)
            if sx != sy:
                n += 1
    return n


RESAMPLE = [None] + [[ne, True] for ne in range(2, 13)] + [[ne, False] for ne in (2, 5, 9)]


class Geometry(ProductSystem):
    chunk = 4

    def __init__(self, base_names, bound, nrot, seed):
        self.name = "geometry-d%d:%s" % (bound, "+".join(base_names))
        self._bases = base_names
        self.bound = bound
        self.nrot = nrot
        self.seed = seed
        self._axes = {}

    def bases(self):
        return self._bases

    def axes(self, base):
        if base not in self._axes:
            at = bases.get(base)
            th0 = 0.4321 + 0.29 * self.seed
            # centre pose: first angle of a fine grid at which no tangent is mirrored by sign forcing (F1),
            # so that deviations from the centre give physics verdicts
            for m in range(200):
                if predicted_f1(at, 3, SC.make_cmap(c02.MOBS[0], th0 + 0.03 * m, (0, 0), 1.0, SC.extent_of(at))) == 0:
                    th0 = th0 + 0.03 * m
                    break
            rots = [th0 + 2 * math.pi * i / self.nrot for i in range(self.nrot)] + c02.aligned_angles(at, c02.MOBS[0], m=2)
            self._axes[base] = {
                "mob": c02.MOBS,
                "rot": rots,
                "trans": [[0, 0], [3, 1], [-10, 4]],
                "scale": [1.0, 1e-3, 1e3],
                "k": [3] + [x for x in range(1, 17) if x != 3] + [0, ["mod3", 1, 4, 9], ["mod3", 16, 2, 1]],
                "rs": RESAMPLE,
                "solver": [None, "lsq", "lsq_linear"],
                "fit": ["dlite", "taubinSVD"],
            }
        return self._axes[base]

    def eval_config(self, base, cfg):
        at = bases.get(base)
        tags = []
        mobspec = cfg["mob"]
        if cfg["k"] == 0 and mobspec[0] in ("m", "mc"):
            # two-point "arcs" are chords: such a tissue is not in force balance; outside the statement
            return {"viol": [], "tags": ["outside:k0_curved"], "cls": "k0-curved", "outdom": True}
        if cfg["k"] == 0 and any(it["phi"] != 0.0 for it in at["I"]):
            return {"viol": [], "tags": ["outside:k0_curved"], "cls": "k0-curved", "outdom": True}     # lens arcs as chords
        cm = SC.make_cmap(mobspec, cfg["rot"], cfg["trans"], cfg["scale"], SC.extent_of(at))
        if isinstance(cfg["k"], list):
            tags.append("mixed_point_counts")
        rs = cfg["rs"]
        if rs is not None and cfg["k"] == 0:
            rs = [rs[0], False]
        r = SC.solve_static(at, k=cfg["k"], cmap=cm, fit=cfg["fit"], method=cfg["solver"], allow_negatives=False, resample=rs)
        viol, known = [], []
        verdict = judge(at, cm, r, cfg["solver"], cfg["fit"], viol, known, tags)
        if rs is not None:
            tags.append("resampled")
        tags.append("solver:%s" % cfg["solver"])
        tags.append("fit:%s" % cfg["fit"])
        tags.append("straight" if mobspec[0] in ("id", "idc") else "curved")
        if r.exc is None and getattr(r, "record", None):
            tags.append("path:" + r.record["path"])
        cls = "%s/%s/%s/%s/%s/%s" % (base, mobspec, cfg["k"], rs, cfg["solver"], cfg["fit"])
        return {"viol": viol, "known": known, "tags": sorted(set(tags)), "cls": cls, "nontrivial": verdict, "outdom": not verdict}


class SubTissues:
    chunk = 8

    def __init__(self, base, configs):
        self.base = base
        self.name = "subtissues:%s" % base
        self.at = bases.get(base)
        self.adj = T.cell_adjacency(self.at)
        self.configs = configs
        self.bound = len(self.at["C"])
        self.expand_outdom = True

    def initial(self):
        return [{"cells": [c], "cfg": i} for c in sorted(self.at["C"], key=int) for i in range(len(self.configs))]

    def actions(self, d):
        S = set(d["cells"])
        return [["add", c] for c in sorted({y for x in S for y in self.adj[x]} - S, key=int)]

    def step(self, d, a):
        return {"cells": sorted(d["cells"] + [a[1]], key=int), "cfg": d["cfg"]}

    def evaluate(self, d):
        sub = T.sub_tissue(self.at, d["cells"])
        mobspec, k, method, fit = self.configs[d["cfg"]][:4]
        neg = len(self.configs[d["cfg"]]) > 4 and self.configs[d["cfg"]][4]
        cm = SC.make_cmap(mobspec, 0.7, (0, 0), 1.0, SC.extent_of(self.at))
        viol, known, tags = [], [], []
        ref = RT.reference_system(sub, cm)
        if not ref["rows"] or RT.nullity(ref["M"]) != 1:
            return {"key": "%s|%s" % (",".join(d["cells"]), d["cfg"]), "viol": [], "tags": ["vacuous:subtissue"], "cls": "vac", "outdom": True}
        r = SC.solve_static(sub, k=k, cmap=cm, fit=fit, method=method, allow_negatives=bool(neg))
        verdict = judge(sub, cm, r, method, fit, viol, known, tags, neg=bool(neg))
        if "verdict" in tags:
            tags.append("subtissue_verdict")
            if neg:
                tags.append("verdict_with_negatives_allowed")
                if r.exc is None and getattr(r, "record", None) and r.record["path"] == "inv":
                    tags.append("verdict_on_exact_inversion_with_negatives_allowed")
        key = "%s|%s" % (",".join(d["cells"]), d["cfg"])
        return {"key": key, "viol": viol, "known": known, "tags": sorted(set(tags)), "cls": "%d/%d/%s" % (len(d["cells"]), len(ref["cols"]), d["cfg"]),
                "nontrivial": verdict, "outdom": not verdict}

    def check_edge(self, d, a, d2, r, r2):
        return [], []


def polyline_turning(pts):
    tot = 0.0
    for a, b, c in zip(pts[:-2], pts[1:-1], pts[2:]):
        tot += cmath.phase((c - b) / (b - a))
    return abs(tot) * (len(pts) - 1) / (len(pts) - 2)


class MajorArcs:
    """Moebius images with the pole just outside the tissue next to a peripheral junction whose kept sector is narrow: the internal
    interface ending there becomes an arc of MORE than half a circle (strongly curved end of the quantifier)."""
    chunk = 2
    bound = 1

    def __init__(self, base, junction, k):
        self.name = "major-arcs:%s" % base
        self.base, self.junction, self.k = base, junction, k
        at = bases.get(base)
        J = {j: T.zc(p) for j, p in at["J"].items()}
        internal = set(T.internal_interfaces(at))
        inc = [(ii, it) for ii, it in enumerate(at["I"]) if junction in (it["a"], it["b"])]
        self.inner = [ii for ii, it in inc if ii in internal][0]
        itn = at["I"][self.inner]
        o = itn["b"] if itn["a"] == junction else itn["a"]
        ai = cmath.phase(J[o] - J[junction])
        best = None
        for ii, it in inc:
            if ii in internal:
                continue
            ob = it["b"] if it["a"] == junction else it["a"]
            dd = (cmath.phase(J[ob] - J[junction]) - ai + math.pi) % (2 * math.pi) - math.pi
            if best is None or abs(dd) < abs(best):
                best = dd
        self.poles = []
        for d in (0.04, 0.08, 0.12):
            th = abs(best) + 0.08
            self.poles.append(J[junction] + d * cmath.exp(1j * (ai + math.copysign(th, best))))

    def cmap(self, d):
        pole = self.poles[d["pole"]]
        return T.CMap([["mob", [0, 0], [1, 0], [1, 0], [-pole.real, -pole.imag]], T.aff(0.5 * cmath.exp(1j * d["rot"]), 0)])

    def initial(self):
        at = bases.get(self.base)
        out = []
        for pi in range(len(self.poles)):
            for m in range(64):
                d = {"pole": pi, "rot": round(0.1 * m, 3), "fit": "taubinSVD", "solver": None, "rs": None}
                if predicted_f1(at, self.k, self.cmap(d)) == 0:
                    out.append(d)
                    break
        return out

    def actions(self, d):
        if d["fit"] == "taubinSVD" and d["solver"] is None and d["rs"] is None:
            return [["fit", "dlite"], ["solver", "lsq"], ["solver", "lsq_linear"], ["rs", [12, True]], ["rs", [8, False]]]
        return []

    def step(self, d, a):
        return dict(d, **{a[0]: a[1]})

    def evaluate(self, d):
        at = bases.get(self.base)
        cm = self.cmap(d)
        jpos, ipts = T.geometry(at, self.k, cm)
        tt = polyline_turning(ipts[self.inner])
        r = SC.solve_static(at, k=self.k, cmap=cm, fit=d["fit"], method=d["solver"], allow_negatives=False, resample=d["rs"])
        viol, known, tags = [], [], []
        if tt > math.pi:
            tags.append("major_arc")
        verdict = judge(at, cm, r, d["solver"], d["fit"], viol, known, tags)
        return {"viol": viol, "known": known, "tags": sorted(set(tags)), "cls": "%d/%.1f/%s/%s/%s/%.0f" % (d["pole"], d["rot"], d["fit"], d["solver"], d["rs"], math.degrees(tt)),
                "nontrivial": verdict, "outdom": not verdict}

    def check_edge(self, d, a, d2, r, r2):
        return [], []


def eval_live(d):
    """inference, then every vertex of the SAME frame translated (what ForSys(cm=True) does to the frames it is handed), then
    inference again on the same objects: the second answer is judged against the analytic truth like any other pose"""
    base, mobspec, fit, solver, tr = d["base"], d["mob"], d["fit"], d["solver"], d["tr"]
    at = bases.get(base)
    ext = SC.extent_of(at)
    cm = SC.make_cmap(mobspec, d["rot"], (0, 0), 1.0, ext)
    viol, known, tags = [], [], ["live_translation"]
    r = SC.solve_static(at, k=3, cmap=cm, fit=fit, method=solver, allow_negatives=False)
    if r.exc is not None:
        return {"viol": [{"what": "static inference raised on an equilibrium tissue", "detail": fsutil.exc_str(r.exc)}], "tags": tags, "cls": "exc"}
    dx, dy = float(tr[0] * ext), float(tr[1] * ext)
    for v in r.frame.vertices.values():
        v.x += dx
        v.y += dy
    s = r.forsys
    kw = {} if solver is None else {"method": solver}
    _, ex = fsutil.call(s.build_force_matrix, when=0, circle_fit_method=fit, angle_limit=np.inf, metadata={})
    if ex is None:
        _, ex = fsutil.call(s.solve_stress, when=0, allow_negatives=False, **kw)
    if ex is not None:
        return {"viol": [{"what": "static inference raised after the vertices of an already solved equilibrium tissue were translated",
                          "detail": fsutil.exc_str(ex)}], "tags": tags, "cls": "exc"}
    r.fm = s.force_matrices[0]
    r.M = np.array(r.fm.matrix, float)
    r.forces = [float(s.forces[0][i]) for i in range(len(s.forces[0]))]
    r.record = getattr(r.fm, "_verif_record", None)
    r.cols = SC.column_interfaces(r.frame, r.fm, r.info, at)
    verdict = judge(at, cm, r, solver, fit, viol, known, tags)
    for v_ in viol:
        v_["what"] = "[second inference after an in-place translation] " + v_["what"]
    return {"viol": viol, "known": known, "tags": sorted(set(tags)), "cls": "%s/%s/%s/%s/%s" % (base, mobspec, fit, solver, tr),
            "nontrivial": verdict, "outdom": not verdict}


def eval_live_resample(d):
    """inference on the mesh as given, then generate_mesh on the SAME vertex / edge / cell objects (as a user does who first looks
    at the raw segmentation and then resamples it), a new Frame on the result and inference again: the second answer is judged
    against the analytic truth ('before and after mesh resampling')"""
    import forsys as fs
    import forsys.virtual_edges as ve
    base, mobspec, fit, solver, ne = d["base"], d["mob"], d["fit"], d["solver"], d["ne"]
    at = bases.get(base)
    cm = SC.make_cmap(mobspec, d["rot"], (0, 0), 1.0, SC.extent_of(at))
    viol, known, tags = [], [], ["live_resample"]
    r = SC.solve_static(at, k=d["k"], cmap=cm, fit=fit, method=solver, allow_negatives=False)
    if r.exc is not None:
        return {"viol": [{"what": "static inference raised on an equilibrium tissue", "detail": fsutil.exc_str(r.exc)}], "tags": tags, "cls": "exc"}
    v, e, c = r.vertices, r.edges, r.cells
    r.frame = r.forsys = r.fm = None       # the first Frame / ForSys are dropped, as when the user rebinds the names
    try:
        with fsutil.quiet():
            v, e, c, _ = ve.generate_mesh(v, e, c, ne=ne)
            frame = T.frame_of(v, e, c)
            s = fs.ForSys({0: frame})
            s.build_force_matrix(when=0, circle_fit_method=fit, angle_limit=np.inf, metadata={})
            s.solve_stress(when=0, allow_negatives=False, **({} if solver is None else {"method": solver}))
    except Exception as ex:
        return {"viol": [{"what": "resampling the objects of an already analysed equilibrium tissue and analysing them again raised", "detail": fsutil.exc_str(ex)}],
                "tags": tags, "cls": "exc"}
    r.vertices, r.edges, r.cells, r.frame, r.forsys = v, e, c, frame, s
    r.fm = s.force_matrices[0]
    r.M = np.array(r.fm.matrix, float)
    r.forces = [float(s.forces[0][i]) for i in range(len(s.forces[0]))]
    r.record = getattr(r.fm, "_verif_record", None)
    r.cols = SC.column_interfaces(frame, r.fm, r.info, at)
    verdict = judge(at, cm, r, solver, fit, viol, known, tags)
    for v_ in viol:
        v_["what"] = "[second inference after resampling the same objects] " + v_["what"]
    return {"viol": viol, "known": known, "tags": sorted(set(tags)), "cls": "%s/%s/%s/%s/%s" % (base, mobspec, fit, solver, ne),
            "nontrivial": verdict, "outdom": not verdict}


def eval_after_others(d):
    """another ForSys object of the same tissue (same ids) is built with a strict angle limit and solved first; the judged inference
    then runs on freshly built objects with no limit. Nothing of the first object may reach the second (class attributes, mutable
    defaults, module globals)."""
    import forsys as fs
    from checks import c10
    base, mobspec, fit, solver = d["base"], d["mob"], d["fit"], d["solver"]
    at = bases.get(base)
    cm = SC.make_cmap(mobspec, d["rot"], (0, 0), 1.0, SC.extent_of(at))
    lim = c10.angle_limit_for(at, cm)
    with fsutil.quiet():
        v, e, c, _ = T.realise(at, k=3, cmap=cm)
        s0 = fs.ForSys({0: T.frame_of(v, e, c)})
    fsutil.call(s0.build_force_matrix, when=0, angle_limit=lim, circle_fit_method=fit)
    fsutil.call(s0.solve_stress, when=0, allow_negatives=False)
    viol, known, tags = [], [], ["after_other_objects"]
    r = SC.solve_static(at, k=3, cmap=cm, fit=fit, method=solver, allow_negatives=False)
    verdict = judge(at, cm, r, solver, fit, viol, known, tags)
    for v_ in viol:
        v_["what"] = "[after another object of the same tissue was solved with a strict angle limit in the same process] " + v_["what"]
    return {"viol": viol, "known": known, "tags": sorted(set(tags)), "cls": "%s/%s/%s/%s/other" % (base, mobspec, fit, solver), "nontrivial": verdict, "outdom": not verdict}


def build(tier, seed):
    if tier == "quick":
        return [Geometry(["v5x5", "v6x5"], 2, 8, seed),
                Geometry(["v6x6p%d" % (seed + 1)], 1, 8, seed),
                Geometry(["v5x5+lens0", "v6x5+lens5"], 1, 8, seed),      # a cell with two sides: two inferred interfaces share both end junctions
                SubTissues("v5x5", [(["m", 0.05, 0.02], 3, None, "dlite"), (["id"], 0, None, "dlite"), (["m", 0.05, 0.02], 2, None, "taubinSVD", True)]),
                MajorArcs("raw5x5j30p0", "16", 16),
                ListSystem("live-translations", [{"base": b, "mob": m, "fit": f, "solver": sv, "tr": tr, "rot": 0.1234 + 0.37 * seed + 0.5 * i}
                                                 for b in ("v5x5", "v6x5") for m in (["m", 0.05, 0.02], ["mc", 0.12, 0.05]) for f in ("dlite", "taubinSVD")
                                                 for sv in (None, "lsq_linear") for i, tr in enumerate([(3, -2), (-39.8, 18.8), (0.02, 0.01)])], eval_live),
                ListSystem("after-other-objects", [{"base": b, "mob": m, "fit": f, "solver": sv, "rot": 0.1234 + 0.37 * seed}
                                                   for b in ("v5x5", "v6x5") for m in (["m", 0.05, 0.02], ["id"]) for f in ("dlite", "taubinSVD") for sv in (None, "lsq")], eval_after_others),
                ListSystem("live-resample", [{"base": b, "mob": m, "fit": f, "solver": sv, "k": k, "ne": ne, "rot": 0.1234 + 0.37 * seed}
                                             for b in ("v5x5", "v6x5") for m in (["m", 0.05, 0.02], ["id"]) for f in ("dlite", "taubinSVD") for sv in (None, "lsq_linear")
                                             for k, ne in ((8, 4), (5, 2), (12, 6))], eval_live_resample)]
    return [Geometry(["v5x5"], 3, 12, seed),
            Geometry(["v6x5", "v6x6", "v7x6p%d" % (seed + 1)], 2, 24, seed),
            Geometry(["v5x5+lens0", "v6x5+lens5", "v6x6+lens2"], 2, 8, seed),
            SubTissues("v6x5", [(["m", 0.05, 0.02], 3, None, "dlite"), (["id"], 0, None, "dlite"), (["mc", 0.12, 0.05], 5, "lsq", "taubinSVD"),
                                (["m", 0.05, 0.02], 2, None, "taubinSVD", True), (["id"], 1, None, "dlite", True)]),
            MajorArcs("raw5x5j30p0", "16", 16), MajorArcs("raw5x5j30p0", "16", 12),
            ListSystem("live-translations", [{"base": b, "mob": m, "fit": f, "solver": sv, "tr": tr, "rot": 0.1234 + 0.37 * seed + 0.5 * i}
                                             for b in ("v5x5", "v6x5", "v6x6") for m in (["m", 0.05, 0.02], ["mc", 0.12, 0.05], ["m", 0.01, 0.0]) for f in ("dlite", "taubinSVD")
                                             for sv in (None, "lsq", "lsq_linear") for i, tr in enumerate([(3, -2), (-39.8, 18.8), (0.02, 0.01), (1e3, 0), (0, -1e2)])], eval_live),
            ListSystem("after-other-objects", [{"base": b, "mob": m, "fit": f, "solver": sv, "rot": 0.1234 + 0.37 * seed}
                                               for b in ("v5x5", "v6x5", "v6x6") for m in (["m", 0.05, 0.02], ["id"], ["mc", 0.12, 0.05]) for f in ("dlite", "taubinSVD")
                                               for sv in (None, "lsq", "lsq_linear")], eval_after_others),
            ListSystem("live-resample", [{"base": b, "mob": m, "fit": f, "solver": sv, "k": k, "ne": ne, "rot": 0.1234 + 0.37 * seed}
                                         for b in ("v5x5", "v6x5", "v6x6") for m in (["m", 0.05, 0.02], ["id"], ["mc", 0.12, 0.05]) for f in ("dlite", "taubinSVD") for sv in (None, "lsq", "lsq_linear")
                                         for k, ne in ((8, 4), (5, 2), (12, 6), (16, 12), (3, 2))], eval_live_resample)]
