"""C07 — results do not depend on labels, storage order or cell orientation.

Every labelling (vertex / mesh-edge / cell ids, cell insertion order, start vertex of each cycle, rotational
sense of each cell, direction of each stored mesh edge) is an environment choice. States = labellings within
a deviation bound of the natural one (plus fully enumerated classes: all 2^cells orientation patterns, all
720 permutations of six junction ids, all insertion orders of five cells); every transition changes one class
and must leave the physical observation unchanged.
"""
import itertools

import numpy as np

from fsmc import bases, tissue as T, fsutil, solvecase as SC
from fsmc.explorer import ProductSystem

PID = "C07"
RULE = ("labellings = product of (orientation pattern, cycle shift, vertex-id map, edge-id map, cell-id map, insertion order, edge direction); "
        "observation = internal interfaces, equation set, tension per physical interface, pressure per physical cell; "
        "non-trivial = labelling differs from the natural one; classes = labelling class signature")
BOUND = {"quick": "deviation bound 2 over 7 labelling classes on a 6-cell curved base; all 2^6/2^7 orientation patterns; all 720 permutations of 6 junction ids; all 120 insertion orders of a 5-cell sub-tissue; deviation bound 1 on tissues with mixed per-interface point counts (6-cell base, lens); in every state the pressure step is run a second time on the same objects (in the orientation and mixed-count systems the whole inference) and the second results are compared across labellings too",
         "thorough": "d=2 on 7- and 11-cell bases and on square3x3; all 2^11 orientation patterns; 720 permutations on two tissues; all insertion orders of two 5-cell sub-tissues; d=2 on an 8-cell sub-tissue with a cell outside every internal interface and on mixed point counts (11-cell base, lens, 5-fold fan); second pass on the same objects as in the quick tier"}
ASSUMPTIONS = ["cells are inserted into the dict in construction order, as every parser does", "comparison tolerance 1e-9 (coefficients), 1e-8 x conditioning (tensions, pressures)"]
REQUIRED_TAGS = {"all": ["orient", "shift", "vmap", "emap", "cids", "order", "eflip", "pressures_compared", "tensions_compared", "undetermined_non_unique_optimum", "same_tensions_although_not_unique", "cell_without_internal_interface", "vorder", "eorder", "second_pass_compared"]}


def observe(at, cm, k, lab, repeat=False):
    """physical observation of one labelling"""
    import forsys as fs
    r = SC.solve_static(at, k=k, cmap=cm, lab=lab, allow_negatives=False)
    obs = {"exc": None}
    if r.exc is not None:
        obs["exc"] = fsutil.exc_str(r.exc)
        return obs
    jid_of = {vid: j for j, vid in r.info["jvid"].items()}
    obs["internal"] = sorted(x if x is not None else -1 for x in r.cols)
    eq = {}
    for vid, row in r.fm.map_vid_to_row.items():
        j = jid_of.get(vid, "v%s" % vid)
        for n, ii in enumerate(r.cols):
            if r.M[row, n] != 0 or r.M[row + 1, n] != 0:
                eq["%s|%s" % (j, ii)] = [float(r.M[row, n]), float(r.M[row + 1, n])]
    obs["eq"] = eq
    obs["rows"] = sorted(str(jid_of.get(v, "v%s" % v)) for v in r.fm.map_vid_to_row)
    obs["tension"] = {str(ii): float(x) for ii, x in zip(r.cols, r.forces)}
    with fsutil.ref_math():
        from fsmc.ref import nnls as RN
        sv = np.linalg.svd(np.vstack([r.M, np.ones(r.M.shape[1])]), compute_uv=False) if r.M.size else np.array([1.0])
        obs["cond"] = float(sv.max() / max(sv.min(), 1e-300))
        # the statement can only be decided where the non-negative optimum is unique (otherwise every optimum is a
        # legitimate answer and which one is returned may depend on the column order)
        A, b = RN.augment(r.M)
        zr = RN.lawson_hanson(A, b)
        cr = RN.kkt(A, b, zr, 1e-8 * max(1, len(zr)))
        obs["unique"] = bool(cr["ok"] and RN.unique_minimiser(A, zr, cr["g"], 1e-7))
    s = r.forsys
    _, ex = fsutil.call(s.build_pressure_matrix, when=0)
    if ex is None:
        _, ex = fsutil.call(s.solve_pressure, when=0, method="lagrange_pressure")
    if ex is not None:
        obs["pexc"] = fsutil.exc_str(ex)
    else:
        inv = {fid: cid for cid, fid in r.info["cellid"].items()}
        obs["pressure"] = {inv[cid]: float(c.pressure) for cid, c in r.frame.cells.items()}
        pm = s.pressure_matrices[0]
        obs["prow"] = sorted([sorted(inv[x] for x in be.own_cells) for be in pm.big_edges_to_use])
        # the same inference once more ON THE SAME OBJECTS (a user re-running the analysis, e.g. with the other circle fit and
        # back): what the second pass reports is a result like any other and must not depend on the labelling either
        if repeat:
            _, ex2 = fsutil.call(s.build_force_matrix, when=0, circle_fit_method="dlite", angle_limit=np.inf, metadata={})
            if ex2 is None:
                _, ex2 = fsutil.call(s.solve_stress, when=0, allow_negatives=False)
            if ex2 is None:
                f2 = [float(s.forces[0][i]) for i in range(len(s.forces[0]))]
                c2 = SC.column_interfaces(r.frame, s.force_matrices[0], r.info, at)
                obs["tension2"] = {str(ii): float(x) for ii, x in zip(c2, f2)}
        else:
            ex2 = None
        if ex2 is None:
            _, ex2 = fsutil.call(s.build_pressure_matrix, when=0)
        if ex2 is None:
            _, ex2 = fsutil.call(s.solve_pressure, when=0, method="lagrange_pressure")
        if ex2 is not None:
            obs["pexc2"] = fsutil.exc_str(ex2)
        else:
            obs["pressure2"] = {inv[cid]: float(c.pressure) for cid, c in r.frame.cells.items()}
    return obs


def compare(o1, o2):
    viol = []
    tags = []
    if o1["exc"] or o2["exc"]:
        if o1["exc"] != o2["exc"]:
            viol.append({"what": "inference raises for one labelling and not for the other", "detail": [o1["exc"], o2["exc"]]})
        return viol, tags
    if o1["internal"] != o2["internal"]:
        viol.append({"what": "set of internal interfaces depends on the labelling", "detail": {"a": o1["internal"][:30], "b": o2["internal"][:30]}})
        return viol, tags
    if o1["rows"] != o2["rows"] or set(o1["eq"]) != set(o2["eq"]):
        viol.append({"what": "set of equations depends on the labelling", "detail": {"rows_a": o1["rows"][:20], "rows_b": o2["rows"][:20],
                                                                                       "only_a": sorted(set(o1["eq"]) - set(o2["eq"]))[:5], "only_b": sorted(set(o2["eq"]) - set(o1["eq"]))[:5]}})
        return viol, tags
    worst = max([abs(o1["eq"][k][0] - o2["eq"][k][0]) + abs(o1["eq"][k][1] - o2["eq"][k][1]) for k in o1["eq"]] or [0.0])
    if worst > 1e-9:
        viol.append({"what": "coefficients of the same (junction, interface) depend on the labelling", "detail": worst})
    if not (o1["unique"] and o2["unique"]):
        if o1["unique"] != o2["unique"]:
            viol.append({"what": "uniqueness of the optimum depends on the labelling"})
        tags.append("undetermined_non_unique_optimum")
        # every optimum is a legitimate answer, so differing tensions are no verdict; but the pressure step is a function of
        # the tensions and the geometry alone: where the two labellings happen to return the same tensions, the pressures
        # must agree as well
        tol = 1e-8 * max(1.0, min(o1["cond"], 1e6))
        dt = max([abs(o1["tension"][k] - o2["tension"][k]) for k in o1["tension"]] or [0.0])
        if dt > 1e-12 or viol:
            return viol, tags
        tags.append("same_tensions_although_not_unique")
    tol = 1e-8 * max(1.0, min(o1["cond"], 1e6))
    dt = max([abs(o1["tension"][k] - o2["tension"][k]) for k in o1["tension"]] or [0.0])
    tags.append("tensions_compared")
    if dt > tol:
        viol.append({"what": "tension of the same physical interface depends on the labelling", "detail": {"max_diff": dt, "tol": tol}})
    if ("pexc" in o1) != ("pexc" in o2):
        viol.append({"what": "pressure step raises for one labelling and not for the other", "detail": [o1.get("pexc"), o2.get("pexc")]})
    elif "pressure" in o1:
        tags.append("pressures_compared")
        if o1["prow"] != o2["prow"]:
            viol.append({"what": "pressure equations join different cell pairs depending on the labelling"})
        dp = max(abs(o1["pressure"][k] - o2["pressure"][k]) for k in o1["pressure"])
        scale = max(1.0, max(abs(v) for v in o1["pressure"].values()))
        if dp > tol * scale:
            viol.append({"what": "pressure of the same physical cell depends on the labelling", "detail": {"max_diff": dp, "tol": tol * scale}})
        if ("pexc2" in o1) != ("pexc2" in o2):
            viol.append({"what": "a second pass on the same objects raises for one labelling and not for the other", "detail": [o1.get("pexc2"), o2.get("pexc2")]})
        elif "pressure2" in o1 and "pressure2" in o2:
            tags.append("second_pass_compared")
            if "tension2" in o1 and "tension2" in o2:
                dt2 = max([abs(o1["tension2"][k] - o2["tension2"].get(k, float("inf"))) for k in o1["tension2"]] or [0.0])
                if dt2 > tol:
                    viol.append({"what": "tension reported by a second pass on the same objects depends on the labelling", "detail": {"max_diff": dt2, "tol": tol}})
            dp2 = max(abs(o1["pressure2"][k] - o2["pressure2"][k]) for k in o1["pressure2"])
            if dp2 > tol * scale:
                viol.append({"what": "pressure reported by a second pass on the same objects depends on the labelling", "detail": {"max_diff": dp2, "tol": tol * scale}})
    return viol, tags


class Labellings(ProductSystem):
    chunk = 4
    repeat = False    # True: the second pass also repeats the tension inference (otherwise only the pressure step)

    def __init__(self, name, base_specs, bound, classes):
        """base_specs: list of [base, cells or None, mobspec, k]; classes: which axes to include"""
        self.name = name
        self._b = base_specs
        self.bound = bound
        self.classes = classes
        self._ax = {}

    def bases(self):
        return self._b

    def abstract(self, base):
        at = bases.get(base[0])
        if base[1]:
            at = T.sub_tissue(at, base[1])
        return at

    def axes(self, base):
        key = fsutil.state_hash(base)
        if key in self._ax:
            return self._ax[key]
        at = self.abstract(base)
        cids = sorted(at["C"], key=int)
        n = len(cids)
        k = base[3]
        nj = len(at["J"])
        ks = T.sample_counts(at, k)
        nv = nj + sum(ks)
        ne = sum(x + 1 for x in ks)
        ax = {}
        cl = self.classes
        if "orient_all" in cl:
            ax["orient"] = [[]] + [[c for i, c in enumerate(cids) if (m >> i) & 1] for m in range(1, 2 ** n)]
        elif "orient" in cl:
            ax["orient"] = [[]] + [list(cids)] + [cids[::2]] + [[c] for c in cids]
        if "shift" in cl:
            sh = [{}]
            for c in cids:
                L = sum(1 + ks[ii] for ii, _ in at["C"][c])
                for s in sorted({1, L // 2, L - 1}) if n <= 7 else sorted({1, L - 1}):
                    sh.append({c: s})
            adj = T.cell_adjacency(at)
            pairs = [(a, b) for a in cids for b in sorted(adj[a], key=int) if int(a) < int(b)][:4]
            for a, b in pairs:
                sh.append({a: 1, b: 3})
            ax["shift"] = sh
        if "vmap" in cl:
            vm = [["id"], ["rev"], ["gap", 3, 7], ["off", 10 ** 6]]
            tr = [(0, 1), (0, nj - 1), (1, nj // 2), (0, nj), (nj - 1, nv - 1), (nj, nj + 1), (nj, nv - 1), (2, nj + 3), (nj + 1, nj + sum(ks[:3])), (3, 4)]
            vm += [["swap", i, j] for i, j in tr if i != j and j < nv]
            ax["vmap"] = vm
        if "vperm720" in cl:
            ax["vmap"] = [["id"]] + [["perm", list(p)] for p in itertools.permutations(range(6)) if list(p) != list(range(6))]
        if "emap" in cl:
            ax["emap"] = [["id"], ["rev"], ["gap", 2, 5], ["off", 10 ** 6], ["swap", 0, 1], ["swap", 0, ne - 1], ["swap", 2, ne // 2], ["rot", 7]]
        if "cids" in cl:
            cm_ = [["id"], ["rev"], ["gap", 5, 3], ["off", 10 ** 6], ["rot", 1]]
            cm_ += [["swap", i, j] for i in range(min(n, 3 if n > 7 else n)) for j in range(i + 1, n)]
            ax["cids"] = cm_
        if "order_all" in cl:
            # all insertion orders of the first five cells (the remaining cells keep their place)
            ax["order"] = [list(p) + cids[5:] for p in itertools.permutations(cids[:5])]
        elif "order" in cl:
            od = [list(cids), cids[::-1]] + [cids[r:] + cids[:r] for r in range(1, n)]
            for i in range(n if n <= 7 else 2):
                for j in range(i + 1, n):
                    o = list(cids)
                    o[i], o[j] = o[j], o[i]
                    od.append(o)
            ax["order"] = od
        if "eflip" in cl:
            ax["eflip"] = [None, "all", "alt"]
        if "storage" in cl:
            # the order in which vertices / mesh edges are INSERTED into their dicts (what every loop over .values() sees),
            # independent of the ids they carry
            ax["vorder"] = [None, "rev", "id", ["rot", 5], ["rot", nv // 2]]
            ax["eorder"] = [None, "rev", "id", ["rot", 7]]
        self._ax[key] = ax
        return ax

    def eval_config(self, base, cfg):
        at = self.abstract(base)
        cm = SC.make_cmap(base[2], 0.37, (0, 0), 1.0, SC.extent_of(bases.get(base[0])))
        lab = {"flips": cfg.get("orient", []), "shifts": cfg.get("shift", {}), "vmap": cfg.get("vmap"), "emap": cfg.get("emap"),
               "cids": cfg.get("cids"), "order": cfg.get("order"), "eflip": cfg.get("eflip"), "vorder": cfg.get("vorder"), "eorder": cfg.get("eorder")}
        obs = observe(at, cm, base[3], lab, repeat=self.repeat)
        ax = self.axes(base)
        centre = {a: ax[a][0] for a in ax}
        tags = [a for a in cfg if cfg[a] != centre[a]]
        if obs.get("prow") is not None and obs.get("pressure") and set(obs["pressure"]) - {c for pr in obs["prow"] for c in pr}:
            tags.append("cell_without_internal_interface")
        cls = "|".join("%s:%s" % (a, fsutil.state_hash(cfg[a])[:5] if cfg[a] != centre[a] else "-") for a in sorted(cfg))
        return {"viol": [], "tags": tags, "cls": cls, "obs": obs, "nontrivial": any(cfg[a] != centre[a] for a in cfg)}

    def check_pair(self, base, axis, cfg1, r1, cfg2, r2):
        viol, tags = compare(r1["obs"], r2["obs"])
        for v in viol:
            v["what"] = "[%s changed] %s" % (axis, v["what"])
        # tags from edge checks are accounted through the states' own tags; comparison tags recorded on r2
        r2.setdefault("edge_tags", []).extend(tags)
        return viol, []


class _Counting(Labellings):
    """adds comparison buckets to the state tags by comparing every state with the natural labelling in the worker"""

    def eval_config(self, base, cfg):
        r = super().eval_config(base, cfg)
        if r["nontrivial"]:
            at = self.abstract(base)
            cm = SC.make_cmap(base[2], 0.37, (0, 0), 1.0, SC.extent_of(bases.get(base[0])))
            o0 = observe(at, cm, base[3], {}, repeat=self.repeat)
            viol, tags = compare(o0, r["obs"])
            for v in viol:
                v["what"] = "[vs natural labelling] " + v["what"]
            r["viol"] = viol
            r["tags"] = r["tags"] + tags
        return r


def first_connected(base, n):
    at = bases.get(base)
    for S in T.connected_subsets(at, min_size=n, max_size=n):
        sub = T.sub_tissue(at, S)
        from fsmc.ref import tangent as RT
        if len(RT.reference_system(sub)["rows"]) >= 2:
            return S
    return T.connected_subsets(at, min_size=n, max_size=n)[0]


def first_with_hanging(base, n, count=1):
    """a connected n-cell sub-tissue in which some cell touches no internal interface (its pressure column is dropped) while
    the others still give a non-trivial system"""
    at = bases.get(base)
    from fsmc.ref import tangent as RT
    for S in T.connected_subsets(at, min_size=n, max_size=n):
        sub = T.sub_tissue(at, S)
        internal = T.internal_interfaces(sub)
        touched = {c for ii in internal for c in (sub["I"][ii]["L"], sub["I"][ii]["R"])}
        if len(internal) >= 3 and sum(1 for c in sub["C"] if c not in touched) >= count and len(RT.reference_system(sub)["rows"]) >= 2:
            return S
    raise RuntimeError("no %d-cell sub-tissue of %s with a cell outside every internal interface" % (n, base))


def six_junction_tissue(base):
    """a connected sub-tissue with exactly 6 vertices of degree>=2 ... we need exactly six junction ids in the numbering:
    take the smallest connected sub-tissue whose abstract junction count is >= 6 and permute the first six ids"""
    at = bases.get(base)
    for n in (2, 3):
        for S in T.connected_subsets(at, min_size=n, max_size=n):
            sub = T.sub_tissue(at, S)
            if len(sub["J"]) >= 6:
                return S
    return None


class _Repeating(_Counting):
    repeat = True


def build(tier, seed):
    M = ["m", 0.05, 0.02]
    all_cl = ["orient", "shift", "vmap", "emap", "cids", "order", "eflip", "storage"]
    if tier == "quick":
        b6 = first_connected("v5x5", 6)
        return [_Counting("labels-d2-small", [["v5x5", b6, M, 2]], 2, all_cl),
                _Counting("labels-d1-unique", [["v5x5", None, M, 2], ["v6x5p%d" % (seed + 1), None, ["mc", 0.12, 0.05], 1]], 1, all_cl),
                _Repeating("orientations-all", [["v5x5", None, M, 1]], 1, ["orient_all"]),
                _Counting("junction-perms-720", [["v5x5", None, M, 1]], 1, ["vperm720"]),
                _Counting("insertion-orders-all", [["v5x5", None, M, 1]], 1, ["order_all"]),
                _Counting("lattice-d1", [["square3x3", None, ["id"], 2]], 1, all_cl),
                _Counting("two-cells-outside-d1", [["v5x5", first_with_hanging("v5x5", 7, 2), M, 2]], 1, ["orient", "cids", "order", "storage"]),
                _Repeating("mixed-point-counts-d1", [["v5x5", b6, M, ["mod3", 0, 3, 1]], ["lens", None, M, ["mod3", 2, 0, 1]]], 1, all_cl)]   # b6 contains a cell outside every internal interface
    b7 = first_connected("v6x5", 7)
    return [_Counting("labels-d2", [["v5x5", None, M, 2], ["v6x5", b7, M, 2], ["square3x3", None, ["id"], 2]], 2, all_cl),
            _Counting("labels-d1-unique", [["v6x5", None, M, 2], ["v6x6p%d" % (seed + 1), None, ["mc", 0.12, 0.05], 1]], 1, all_cl),
            _Repeating("orientations-all", [["v5x5", None, M, 2], ["v6x5", None, ["mc", 0.12, 0.05], 1]], 1, ["orient_all"]),
            _Counting("junction-perms-720", [["v5x5", None, M, 1], ["v6x5", None, ["id"], 2]], 1, ["vperm720"]),
            _Counting("insertion-orders-all", [["v5x5", None, M, 2], ["v6x5", None, M, 1]], 1, ["order_all"]),
            _Counting("labels-d3", [["v5x5", first_connected("v5x5", 5), M, 2]], 3, all_cl),
            _Repeating("mixed-point-counts-d2", [["v5x5", None, M, ["mod3", 0, 3, 1]], ["lens", None, M, ["mod3", 2, 0, 1]], ["fan5", None, M, ["mod3", 1, 0, 4]]], 2, all_cl),
            _Counting("hanging-cell-d2", [["v6x5", first_with_hanging("v6x5", 8), ["mc", 0.12, 0.05], 1], ["v5x5", first_with_hanging("v5x5", 7, 2), M, 2], ["v6x5", first_with_hanging("v6x5", 9, 3), M, 1]], 2, all_cl)]
