"""C04 — pressure step: Young-Laplace equations with a zero-sum least-squares solution.

Four explorations:
 (a) rows: every internal interface of tissues under labellings (orientation patterns, insertion orders, cycle shifts):
     +-1 pair with the +1 (after sign normalisation) on the side of the analytic centre of curvature, rhs = tension x the
     library's total turning, same physical equation for every labelling (transitions = one labelling change);
 (b) turning estimator: full grid n = 3..17 x turning 0.05..1.50 x 24 rotations x 3 scales x both directions;
 (c) solution: every connected sub-tissue x cell orders x tension basis: reference zero-sum least squares, linearity,
     zeros for cells without internal interface;
 (d) physics: Moebius equilibria (Pearson >= 0.9 against analytic Young-Laplace pressures), straight tissues (zero).
"""
import cmath
import itertools
import math

import numpy as np

from fsmc import bases, tissue as T, fsutil, solvecase as SC, pairs
from fsmc.explorer import ProductSystem, ListSystem

PID = "C04"
RULE = ("(a) labellings of tissues, per internal interface; (b) full estimator grid; (c) all connected sub-tissues x cell orders x tension vectors; (d) equilibrium tissues x k; "
        "non-trivial = at least one curved internal interface; classes = per-system signatures")
BOUND = {"quick": "(a) all 2^6 orientation patterns + orders/shifts (deviation bound 2) on 2 tissues; (b) 15 x 30 x 24 x 3 x 2 grid; (c) all connected sub-tissues of a 7-cell base x 3 cell orders x (basis + 2 patterns); (d) 3 tissues x k in {3,5,8,15}; (a) also on lens / 5-fold fan / square / brick lattices, with subsets of interfaces reduced to two points among curved ones; (c) also with the interfaces of one cell reduced to two points",
         "thorough": "(a) 2^11 patterns, shapes at deviation bound 2; (c) all sub-tissues of an 11-cell base, of the 5-fold fan and of square3x3; (d) 6 tissues"}
ASSUMPTIONS = ["the magnitude of a row's right-hand side is compared with the library's own public total turning (its accuracy is sub-check (b))",
               "the solution clause is judged where the internal interfaces link all cells that have one into a single group",
               "tolerances: 1e-9 relative (solution vs reference), 3% (estimator), Pearson 0.9 (physics)"]
REQUIRED_TAGS = {"all": ["rows", "cw_first_cell", "ccw_first_cell", "estimator", "solution", "cells_without_interface", "linearity", "physics_curved", "physics_straight", "disconnected_no_verdict", "live_sequence", "straight_among_curved", "straight_solution"]}


ZOO = ["lens", "fan5", "square3x3", "brick3x3"]      # two interfaces sharing both ends, a 5-fold junction, 4-fold junctions, T-junctions


def analytic_side(at, cm, k):
    """for every abstract interface: (centre-side cell, other cell, curvature 1/R) from the image arc (None for straight)"""
    jpos, ipts = T.geometry(at, max(k, 1), cm)
    out = {}
    for ii, it in enumerate(at["I"]):
        pts = ipts[ii]
        c = pairs.circle_through(pts[0], pts[len(pts) // 2], pts[-1])
        with np.errstate(all="ignore"):
            if c is None or abs(c - pts[0]) > 1e9 * abs(pts[-1] - pts[0]):
                out[ii] = None
                continue
            d = pts[-1] - pts[0]
            w = c - pts[0]
            left = (d.real * w.imag - d.imag * w.real) > 0      # centre on the left of a->b (in the image)
            if cm.orientation() < 0:
                left = not left                                   # an orientation-reversing map swaps the abstract sides
            L, R = it["L"], it["R"]
            out[ii] = ((L, R) if left else (R, L)) + (1.0 / abs(w),)
    return out


def straighten_post(which):
    """interfaces `which` lose their interior points (two-point interfaces next to curved ones, as in any segmented image)"""
    def post(jpos, ipts):
        return jpos, [[pts[0], pts[-1]] if ii in which else pts for ii, pts in enumerate(ipts)]
    return post if which else None


def pressure_rows(at, cm, k, lab, tensions=None, straight=()):
    """build the frame, assign tensions to the internal interfaces (physical order), build the pressure matrix.
    returns dict with physical rows: {iidx: (centre cell, other cell, s*rhs, lib turning)} or error"""
    import forsys as fs
    with fsutil.quiet():
        v, e, c, info = T.realise(at, k=k, cmap=cm, lab=lab, post=straighten_post(set(straight)))
        fr = T.frame_of(v, e, c)
        s = fs.ForSys({0: fr})
    mb = T.match_big_edges(fr, info, at)
    inv = {fid: cid for cid, fid in info["cellid"].items()}
    for be in fr.internal_big_edges:
        path = mb.get(be.big_edge_id)
        ii = path[0][0] if path and len(path) == 1 else None
        be.tension = 1.0 if tensions is None else float(tensions.get(ii, 0.0))
        be._ii = ii
    _, ex = fsutil.call(s.build_pressure_matrix, when=0)
    return s, fr, info, inv, ex


class Rows(ProductSystem):
    chunk = 4

    def __init__(self, name, specs, bound, classes):
        self.name = name
        self._b = specs
        self.bound = bound
        self.classes = classes

    def bases(self):
        return self._b

    def abstract(self, base):
        at = bases.get(base[0])
        return T.sub_tissue(at, base[1]) if base[1] else at

    def axes(self, base):
        at = self.abstract(base)
        cids = sorted(at["C"], key=int)
        n = len(cids)
        ax = {}
        if "orient_all" in self.classes:
            ax["orient"] = [[]] + [[c for i, c in enumerate(cids) if (m >> i) & 1] for m in range(1, 2 ** n)]
        else:
            ax["orient"] = [[], list(cids), cids[::2]] + [[c] for c in cids]
        ax["order"] = [list(cids), cids[::-1]] + [cids[r:] + cids[:r] for r in range(1, n)]
        ax["shift"] = [{}] + [{c: 2} for c in cids[:4]]
        ax["k"] = [3, 1, 2, 8, 16]
        internal = T.internal_interfaces(at)
        inner = [c for c in cids if all(ii in internal for ii, _ in at["C"][c])]
        ax["straight"] = [[], internal[:1], internal[::2]] + [sorted(ii for ii, _ in at["C"][c]) for c in inner[:2]]
        return ax

    def eval_config(self, base, cfg):
        at = self.abstract(base)
        cm = SC.make_cmap(base[2], 0.3, (0, 0), 1.0, SC.extent_of(bases.get(base[0])))
        lab = {"flips": cfg["orient"], "order": cfg["order"], "shifts": cfg["shift"]}
        ends = [frozenset((at["I"][ii]["a"], at["I"][ii]["b"])) for ii in cfg["straight"]]
        if len(set(ends)) < len(ends):
            # two two-point interfaces between the same pair of junctions are the same pair of vertices: not a planar mesh
            return {"viol": [], "tags": ["coincident_two_point_interfaces"], "cls": "outside", "obs": None, "outdom": True}
        s, fr, info, inv, ex = pressure_rows(at, cm, cfg["k"], lab, straight=cfg["straight"])
        if ex is not None:
            return {"viol": [{"what": "build_pressure_matrix raised", "detail": fsutil.exc_str(ex)}], "tags": [], "cls": "exc", "obs": None}
        pm = s.pressure_matrices[0]
        side = analytic_side(at, cm, cfg["k"])
        viol, tags = [], ["rows"]
        keys = list(fr.cells.keys())
        removed = set(pm.removed_columns)
        cols = [cid for n, cid in enumerate(keys) if n not in removed]
        phys = {}
        for pos, be in enumerate(pm.big_edges_to_use):
            row = np.array(pm.lhs_matrix[pos], float)
            rhs = float(pm.rhs_matrix[pos])
            nz = [(cols[i], row[i]) for i in range(len(row)) if row[i] != 0]
            ii = getattr(be, "_ii", None)
            if len(nz) != 2 or sorted(x for _, x in nz) != [-1.0, 1.0]:
                viol.append({"what": "pressure equation is not a +1/-1 pair on two cells", "detail": {"interface": ii, "row": nz}})
                continue
            got_cells = {inv[c]: x for c, x in nz}
            it = at["I"][ii]
            if set(got_cells) != {it["L"], it["R"]}:
                viol.append({"what": "pressure equation does not join the two cells that the interface separates", "detail": {"interface": ii, "cells": sorted(got_cells), "exp": [it["L"], it["R"]]}})
                continue
            with fsutil.quiet():
                turn = float(be.calculate_total_curvature(normalized=False))
            if ii in cfg["straight"]:
                tags.append("straight_among_curved")
                if turn != 0.0:
                    viol.append({"what": "turning estimate of a two-point interface is not zero", "detail": {"interface": ii, "turning": turn}})
            if abs(abs(rhs) - abs(be.tension * turn)) > 1e-12 * max(1.0, abs(rhs)):
                viol.append({"what": "right-hand side is not tension x total turning", "detail": {"interface": ii, "rhs": rhs, "tension": be.tension, "turning": turn}})
            first = fr.cells[be.own_cells[0]]
            with fsutil.quiet():
                tags.append("cw_first_cell" if first.get_area_sign() > 0 else "ccw_first_cell")
            sd = side.get(ii)
            if sd is not None and abs(turn) > 1e-6:
                centre, other, kappa = sd
                s_ = got_cells[centre]
                if s_ * rhs <= 0:
                    viol.append({"what": "the equation does not put the higher pressure on the side of the interface's centre of curvature",
                                 "detail": {"interface": ii, "centre_side": centre, "coefficients": got_cells, "rhs": rhs}})
                phys[str(ii)] = [centre, other, s_ * rhs]
            else:
                phys[str(ii)] = [None, None, abs(rhs)]
        cls = "%s/%s/%d" % (base[0], fsutil.state_hash([cfg["orient"], cfg["order"], cfg["shift"], cfg["straight"]])[:6], cfg["k"])
        return {"viol": viol[:6], "tags": sorted(set(tags)), "cls": cls, "obs": {"phys": phys, "k": cfg["k"]}, "nontrivial": any(v[0] is not None for v in phys.values())}

    def check_pair(self, base, axis, cfg1, r1, cfg2, r2):
        if axis == "k" or not r1.get("obs") or not r2.get("obs"):
            return [], []
        p1, p2 = r1["obs"]["phys"], r2["obs"]["phys"]
        if axis == "straight":
            if set(p1) != set(p2):
                return [{"what": "[straight changed] dropping the interior points of some interfaces changes the set of pressure equations",
                         "detail": {"only_before": sorted(set(p1) - set(p2))[:5], "only_after": sorted(set(p2) - set(p1))[:5]}}], []
            changed = {str(i) for i in set(cfg1["straight"]) ^ set(cfg2["straight"])}
            p1 = {k_: v for k_, v in p1.items() if k_ not in changed}
            p2 = {k_: v for k_, v in p2.items() if k_ not in changed}
        if set(p1) != set(p2):
            return [{"what": "[%s changed] the set of pressure equations depends on the labelling" % axis}], []
        for k_ in p1:
            a, b = p1[k_], p2[k_]
            if a[0] != b[0] or abs(a[2] - b[2]) > 1e-9 * max(1.0, abs(a[2])):
                return [{"what": "[%s changed] the pressure equation of an interface depends on how its cells / points are stored" % axis,
                         "detail": {"interface": k_, "a": a, "b": b}}], []
        return [], []


# ---------------------------------------------------------------- (b) estimator grid
def eval_estimator(d):
    import forsys.vertex as fv
    import forsys.edge as fe
    n = d["n"]
    viol = []
    cnt = 0
    worst = 0.0
    for ti in range(1, 31):
        phi = 0.05 * ti
        for ri in range(24):
            th = 2 * math.pi * ri / 24 + 0.013
            for sc in (1e-3, 1.0, 1e3):
                for rev in (False, True):
                    R = 2.0
                    pts = [sc * R * cmath.exp(1j * (th + phi * m / (n - 1))) + sc * complex(3.0, -1.0) for m in range(n)]
                    if rev:
                        pts = pts[::-1]
                    vs = [fv.Vertex(i, float(p.real), float(p.imag)) for i, p in enumerate(pts)]
                    es = [fe.SmallEdge(i, vs[i], vs[i + 1]) for i in range(n - 1)]
                    be = fe.BigEdge(0, vs)
                    est, ex = fsutil.call(be.calculate_total_curvature, normalized=False)
                    cnt += 1
                    if ex is not None:
                        viol.append({"what": "turning estimator raised", "detail": {"n": n, "phi": phi, "exc": fsutil.exc_str(ex)}})
                        break
                    exp = phi * (n - 2) / (n - 1)
                    rel = abs(abs(est) - exp) / exp
                    worst = max(worst, rel)
                    if rel > 0.03:
                        viol.append({"what": "turning estimate deviates from turning x (n-2)/(n-1) by more than 3%", "detail": {"n": n, "phi": phi, "scale": sc, "est": float(est), "exp": exp}})
                        break
                    # sign: library convention, clockwise traversal positive; reversing the points flips the sign
                    if (est < 0) != (not rev):
                        viol.append({"what": "sign of the turning estimate does not follow the traversal direction", "detail": {"n": n, "phi": phi, "rev": rev, "est": float(est)}})
                        break
                if viol:
                    break
            if viol:
                break
        if viol:
            break
    # straight interfaces: exactly zero (within rounding), any scale / rotation
    for ri in range(24):
        th = 2 * math.pi * ri / 24 + 0.013
        for sc in (1e-3, 1.0, 1e3):
            pts = [sc * (complex(1.0, 2.0) + m * 0.7 * cmath.exp(1j * th)) for m in range(n)]
            vs = [fv.Vertex(i, float(p.real), float(p.imag)) for i, p in enumerate(pts)]
            es = [fe.SmallEdge(i, vs[i], vs[i + 1]) for i in range(n - 1)]
            be = fe.BigEdge(0, vs)
            est, ex = fsutil.call(be.calculate_total_curvature, normalized=False)
            cnt += 1
            if ex is not None or abs(est) > 1e-8:
                viol.append({"what": "turning estimate of a straight interface is not zero", "detail": {"n": n, "scale": sc, "est": None if ex else float(est), "exc": fsutil.exc_str(ex) if ex else None}})
                break
    return {"viol": viol[:4], "tags": ["estimator"], "cls": "n%d/%.4f" % (n, worst), "extra_states": cnt, "extra_evaluations": cnt}


# ---------------------------------------------------------------- (c) solution
def reference_pressures(rows, cells):
    """rows: [(cell+, cell-, rhs)]; zero-sum least squares over the cells that occur; others 0"""
    occ = sorted({c for r in rows for c in r[:2]}, key=lambda x: cells.index(x))
    idx = {c: i for i, c in enumerate(occ)}
    with np.errstate(all="ignore"):
        L = np.zeros((len(rows), len(occ)))
        r = np.zeros(len(rows))
        for n, (a, b, v) in enumerate(rows):
            L[n, idx[a]] = 1.0
            L[n, idx[b]] = -1.0
            r[n] = v
        # minimise |L p - r|^2 subject to sum p = 0:  KKT system
        K = np.zeros((len(occ) + 1, len(occ) + 1))
        K[:-1, :-1] = L.T @ L
        K[:-1, -1] = 1.0
        K[-1, :-1] = 1.0
        rhs = np.append(L.T @ r, 0.0)
        sol = np.linalg.lstsq(K, rhs, rcond=None)[0]
    out = {c: 0.0 for c in cells}
    for c in occ:
        out[c] = float(sol[idx[c]])
    return out, occ


def connected(rows):
    adj = {}
    for a, b, _ in rows:
        adj.setdefault(a, set()).add(b)
        adj.setdefault(b, set()).add(a)
    if not adj:
        return False
    st = [next(iter(adj))]
    seen = set(st)
    while st:
        x = st.pop()
        for y in adj[x]:
            if y not in seen:
                seen.add(y)
                st.append(y)
    return len(seen) == len(adj)


class Solutions:
    chunk = 8

    def __init__(self, base, orders):
        self.base = base
        self.name = "solutions:%s" % base
        self.at = bases.get(base)
        self.adj = T.cell_adjacency(self.at)
        self.orders = orders
        self.bound = len(self.at["C"])
        self.expand_outdom = True

    def initial(self):
        return [{"cells": [c], "o": o} for c in sorted(self.at["C"], key=int) for o in range(len(self.orders))]

    def actions(self, d):
        S = set(d["cells"])
        return [["add", c] for c in sorted({y for x in S for y in self.adj[x]} - S, key=int)]

    def step(self, d, a):
        return {"cells": sorted(d["cells"] + [a[1]], key=int), "o": d["o"]}

    def evaluate(self, d):
        sub = T.sub_tissue(self.at, d["cells"])
        cm = SC.make_cmap(["m", 0.05, 0.02], 0.3, (0, 0), 1.0, SC.extent_of(self.at))
        cids = sorted(sub["C"], key=int)
        o = self.orders[d["o"]]
        order = cids if o == "id" else (cids[::-1] if o == "rev" else cids[1:] + cids[:1])
        internal = T.internal_interfaces(sub)
        key = "%s|%s" % (",".join(d["cells"]), d["o"])
        if not internal:
            return {"key": key, "viol": [], "tags": ["no_internal_interface"], "cls": "none", "outdom": True}
        viol, tags = [], []
        patterns = [{ii: 1.0 + 0.3 * math.sin(1.9 * n) for n, ii in enumerate(internal)},
                    {ii: float(n % 3) for n, ii in enumerate(internal)}] + [{ii: 1.0} for ii in internal[:4]]
        sols = []
        for pn, tens in enumerate(patterns):
            if pn >= 2:
                tens = {internal[pn - 2]: 1.0}
            s, fr, info, inv, ex = pressure_rows(sub, cm, 3, {"order": order}, tens)
            if ex is not None:
                viol.append({"what": "build_pressure_matrix raised", "detail": fsutil.exc_str(ex)})
                break
            pm = s.pressure_matrices[0]
            keys = list(fr.cells.keys())
            removed = set(pm.removed_columns)
            cols = [cid for n, cid in enumerate(keys) if n not in removed]
            rows = []
            for pos in range(len(pm.big_edges_to_use)):
                row = np.array(pm.lhs_matrix[pos], float)
                plus = [cols[i] for i in range(len(row)) if row[i] == 1.0]
                minus = [cols[i] for i in range(len(row)) if row[i] == -1.0]
                if len(plus) != 1 or len(minus) != 1:
                    rows = None
                    break
                rows.append((plus[0], minus[0], float(pm.rhs_matrix[pos])))
            if rows is None:
                viol.append({"what": "pressure equation is not a +1/-1 pair"})
                break
            if not connected(rows):
                tags.append("disconnected_no_verdict")
                break
            _, ex = fsutil.call(s.solve_pressure, when=0, method="lagrange_pressure")
            if ex is not None:
                viol.append({"what": "solve_pressure raised", "detail": fsutil.exc_str(ex)})
                break
            df, ex = fsutil.call(fr.get_pressures)
            if ex is not None:
                viol.append({"what": "get_pressures raised", "detail": fsutil.exc_str(ex)})
                break
            got = {int(i): float(p) for i, p in zip(df["id"], df["pressure"])}
            ref, occ = reference_pressures(rows, keys)
            tags.append("solution")
            scale = max(1.0, max(abs(x) for x in ref.values()))
            bad = [c for c in keys if abs(got[c] - ref[c]) > 1e-9 * scale]
            if bad:
                viol.append({"what": "reported pressures are not the zero-sum least-squares solution of the pressure equations (zero for cells without internal interface)",
                             "detail": {"cells": [inv[c] for c in bad][:5], "got": [got[c] for c in bad][:5], "ref": [ref[c] for c in bad][:5], "order": o}})
                break
            if len(occ) < len(keys):
                tags.append("cells_without_interface")
            if abs(sum(got.values())) > 1e-9 * scale:
                viol.append({"what": "reported pressures do not sum to zero", "detail": sum(got.values())})
            sols.append({inv[c]: got[c] for c in keys})
        # two-point interfaces among curved ones: the interfaces of one cell lose their interior points; every internal interface
        # must still contribute its equation (right-hand side 0 for the straight ones) and the solution must be the zero-sum optimum
        if sols and not viol and "disconnected_no_verdict" not in tags:
            c0 = d["cells"][0]
            straight = sorted(ii for ii, _ in sub["C"][c0] if ii in internal)
            s, fr, info, inv, ex = pressure_rows(sub, cm, 3, {"order": order}, patterns[0], straight=straight)
            if ex is None:
                pm = s.pressure_matrices[0]
                keys = list(fr.cells.keys())
                removed = set(pm.removed_columns)
                cols = [cid for n, cid in enumerate(keys) if n not in removed]
                rows, seen_pairs = [], []
                for pos, be in enumerate(pm.big_edges_to_use):
                    row = np.array(pm.lhs_matrix[pos], float)
                    plus = [cols[i] for i in range(len(row)) if row[i] == 1.0]
                    minus = [cols[i] for i in range(len(row)) if row[i] == -1.0]
                    if len(plus) != 1 or len(minus) != 1 or np.count_nonzero(row) != 2:
                        viol.append({"what": "with two-point interfaces among curved ones a pressure equation is not a +1/-1 pair",
                                     "detail": {"interface": getattr(be, "_ii", None), "straight": straight, "row": [float(x) for x in row]}})
                        rows = None
                        break
                    rows.append((plus[0], minus[0], float(pm.rhs_matrix[pos])))
                    seen_pairs.append(tuple(sorted((inv[plus[0]], inv[minus[0]]), key=int)))
                if rows is not None:
                    exp_pairs = sorted(tuple(sorted((sub["I"][ii]["L"], sub["I"][ii]["R"]), key=int)) for ii in internal)
                    if sorted(seen_pairs) != exp_pairs:
                        viol.append({"what": "with two-point interfaces among curved ones the pressure equations are not one per internal interface",
                                     "detail": {"missing": [p_ for p_ in exp_pairs if p_ not in seen_pairs][:4], "straight": straight}})
                    else:
                        _, ex = fsutil.call(s.solve_pressure, when=0, method="lagrange_pressure")
                        if ex is not None:
                            viol.append({"what": "solve_pressure raised with two-point interfaces among curved ones", "detail": fsutil.exc_str(ex)})
                        else:
                            tags.append("straight_solution")
                            got = {c: float(cc.pressure) for c, cc in fr.cells.items()}
                            ref, occ = reference_pressures(rows, keys)
                            scale = max(1.0, max(abs(x) for x in ref.values()))
                            bad = [c for c in keys if abs(got[c] - ref[c]) > 1e-9 * scale]
                            if bad:
                                viol.append({"what": "with two-point interfaces among curved ones the reported pressures are not the zero-sum least-squares solution",
                                             "detail": {"cells": [inv[c] for c in bad][:5], "got": [got[c] for c in bad][:5], "ref": [ref[c] for c in bad][:5], "straight": straight}})
            else:
                viol.append({"what": "build_pressure_matrix raised with two-point interfaces among curved ones", "detail": fsutil.exc_str(ex)})
        # the same assignments, one after the other, on ONE live ForSys object (a user who edits tensions and repeats the
        # pressure step): every result must equal that of the fresh object above
        if sols and not viol and "disconnected_no_verdict" not in tags:
            s_live, fr, info, inv, ex = pressure_rows(sub, cm, 3, {"order": order}, patterns[0])
            for pn, tens in enumerate(patterns[:len(sols)]):
                if pn >= 2:
                    tens = {internal[pn - 2]: 1.0}
                for be in fr.internal_big_edges:
                    be.tension = float(tens.get(getattr(be, "_ii", None), 0.0))
                _, ex = fsutil.call(s_live.build_pressure_matrix, when=0)
                if ex is None:
                    _, ex = fsutil.call(s_live.solve_pressure, when=0, method="lagrange_pressure")
                if ex is not None:
                    viol.append({"what": "repeating the pressure step on the same object raised", "detail": fsutil.exc_str(ex)})
                    break
                tags.append("live_sequence")
                got = {inv[c]: float(cc.pressure) for c, cc in fr.cells.items()}
                bad = [c for c in got if abs(got[c] - sols[pn][c]) > 1e-9 * max(1.0, abs(sols[pn][c]))]
                if bad:
                    viol.append({"what": "pressures after changing the tensions and repeating the pressure step on the same object differ from a fresh object with those tensions",
                                 "detail": {"step": pn, "cells": bad[:4], "live": [got[c] for c in bad[:4]], "fresh": [sols[pn][c] for c in bad[:4]]}})
                    break
        # linearity: pattern 0 = sum over unit responses only when all interfaces are in the basis -> use scaling + additivity of first two
        if len(sols) >= 2 and not viol and "disconnected_no_verdict" not in tags:
            tens_sum = {ii: patterns[0][ii] + patterns[1][ii] for ii in internal}
            s, fr, info, inv, ex = pressure_rows(sub, cm, 3, {"order": order}, tens_sum)
            if ex is None:
                _, ex = fsutil.call(s.solve_pressure, when=0, method="lagrange_pressure")
            if ex is None:
                tags.append("linearity")
                got = {inv[c]: float(cc.pressure) for c, cc in fr.cells.items()}
                for c in got:
                    if abs(got[c] - (sols[0][c] + sols[1][c])) > 1e-9 * max(1.0, abs(got[c])):
                        viol.append({"what": "pressures are not linear in the tensions", "detail": {"cell": c, "sum_of_parts": sols[0][c] + sols[1][c], "whole": got[c]}})
                        break
        return {"key": key, "viol": viol, "tags": sorted(set(tags)), "cls": "%d/%d/%s" % (len(d["cells"]), len(internal), d["o"]), "nontrivial": "solution" in tags}

    def check_edge(self, d, a, d2, r, r2):
        return [], []


# ---------------------------------------------------------------- (d) physics
def eval_physics(d):
    base, mobspec, k = d["base"], d["mob"], d["k"]
    at = bases.get(base)
    cm = SC.make_cmap(mobspec, 0.3, (0, 0), 1.0, SC.extent_of(at))
    r = SC.solve_static(at, k=k, cmap=cm, fit="taubinSVD", allow_negatives=False)
    if r.exc is not None:
        return {"viol": [{"what": "static inference raised", "detail": fsutil.exc_str(r.exc)}], "tags": [], "cls": "exc"}
    s = r.forsys
    _, ex = fsutil.call(s.build_pressure_matrix, when=0)
    if ex is None:
        _, ex = fsutil.call(s.solve_pressure, when=0, method="lagrange_pressure")
    if ex is not None:
        return {"viol": [{"what": "pressure step raised", "detail": fsutil.exc_str(ex)}], "tags": [], "cls": "exc"}
    inv = {fid: cid for cid, fid in r.info["cellid"].items()}
    got = {inv[c]: float(cc.pressure) for c, cc in r.frame.cells.items()}
    viol, tags = [], []
    straight = mobspec[0] in ("id", "idc")
    if straight:
        tags.append("physics_straight")
        if max(abs(x) for x in got.values()) > 1e-8:
            viol.append({"what": "pressures of a straight-edged tissue do not vanish", "detail": max(abs(x) for x in got.values())})
        return {"viol": viol, "tags": tags, "cls": "%s/straight/%d" % (base, k)}
    # analytic Young-Laplace pressures: integrate T x curvature over a spanning tree of the internal-interface graph
    side = analytic_side(at, cm, k)
    internal = T.internal_interfaces(at)
    rows = []
    for ii in internal:
        sd = side[ii]
        if sd is None:
            continue
        rows.append((sd[0], sd[1], at["I"][ii]["T"] * sd[2]))
    cells = sorted({c for r_ in rows for c in r_[:2]}, key=int)
    ref, occ = reference_pressures(rows, cells)
    with fsutil.ref_math():
        resid = max(abs(ref[a] - ref[b] - v) for a, b, v in rows) / max(abs(v) for _, _, v in rows)
        x = np.array([got[c] for c in cells])
        y = np.array([ref[c] for c in cells])
        pear = float(np.corrcoef(x, y)[0, 1])
    if resid > 1e-6:
        raise RuntimeError("analytic Young-Laplace jumps are not consistent around junctions (%.2e)" % resid)
    tags.append("physics_curved")
    if k >= 3 and pear < 0.9:
        viol.append({"what": "reported pressures correlate below 0.9 with the analytic Young-Laplace pressures", "detail": {"pearson": pear, "k": k}})
    return {"viol": viol, "tags": tags, "cls": "%s/%s/%d/%.2f" % (base, mobspec[0], k, pear)}


def build(tier, seed):
    from checks import c07
    M = ["m", 0.05, 0.02]
    b6 = c07.first_connected("v5x5", 6)
    est = ListSystem("turning-estimator-grid", [{"n": n} for n in range(3, 18)], eval_estimator)
    if tier == "quick":
        phys = [{"base": b, "mob": m, "k": k} for b in ("v5x5", "v6x5") for m in (M, ["mc", 0.12, 0.05], ["id"]) for k in (3, 5, 8, 15)]
        return [Rows("rows-orientations-all", [["v5x5", b6, M]], 1, ["orient_all"]),
                Rows("rows-d2", [["v5x5", None, M], ["v4x4p%d" % (seed + 1), None, ["mc", 0.12, 0.05]]], 2, []),
                Rows("rows-shapes-d1", [[b, None, m] for b in ZOO for m in (M, ["id"])], 1, []),
                est,
                Solutions("v5x4", ["id", "rev", "rot"]),
                Solutions("v5x5", ["id", "rev"]),
                ListSystem("physics", phys, eval_physics)]
    phys = [{"base": b, "mob": m, "k": k} for b in ("v5x5", "v6x5", "v6x6", "v7x6") for m in (M, ["mc", 0.12, 0.05], ["m", 0.01, 0.0], ["id"]) for k in (3, 4, 5, 8, 15)]
    return [Rows("rows-orientations-all", [["v5x5", None, M]], 1, ["orient_all"]),
            Rows("rows-d2", [["v5x5", None, M], ["v6x5", None, ["mc", 0.12, 0.05]], ["v4x4p%d" % (seed + 1), None, M]], 2, []),
            Rows("rows-shapes-d2", [[b, None, m] for b in ZOO + ["fan4", "fan6", "hex3x3"] for m in (M, ["mc", 0.12, 0.05], ["id"])], 2, []),
            Solutions("fan5", ["id", "rev"]),
            Solutions("square3x3", ["id", "rot"]),
            est,
            Solutions("v5x5", ["id", "rev", "rot"]),
            ListSystem("physics", phys, eval_physics)]
