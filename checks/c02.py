"""C02 — force-balance equations: right rows, right columns, outward unit tangents.

Three systems, all executed on the real ForceMatrix:
 * geometry: deviation-bounded product (Moebius map x rotation incl. tangent-aligned angles x translation
   x scale x points per interface x fit method x ignore_four) around a centre configuration of each base;
 * sub-tissues: every connected sub-tissue of a base (grown cell by cell), straight and curved;
 * lattices: hand-built square / brick / hexagonal / fan maps (4-, 5-, 6-fold and T-junctions, exactly
   axis-aligned tangents) x rotations x ignore_four.
Oracle: structural sets from the abstract tissue; L1 construction exact w.r.t. the library's own fitted
centre; L2 fitted tangent within the documented fit budget of the analytic tangent.
"""
import cmath
import itertools
import math

import numpy as np

from fsmc import bases, tissue as T, fsutil, pairs
from fsmc.explorer import ProductSystem, ListSystem
from fsmc.ref import tangent as RT

PID = "C02"
RULE = ("configurations of (base, Moebius map, rotation, translation, scale, k, fit, ignore_four) within the deviation bound of a centre; "
        "all connected sub-tissues; hand-built lattices. non-trivial = at least one junction row; classes = (rows, cols, k, fit, map)")
BOUND = {"quick": "deviation bound d=2 around the centre of 2 Voronoi bases (+1 seeded); all sub-tissues of a 7-cell base at k in {0,1,2,5}, of the 5-fold fan (many-fold junctions on the border, uniform and mixed point counts) and of square3x3; lattices (square, brick, hex, 4/5/6-fold fans, lens) at 12 rotations; point counts 0..16 and 3 mixed patterns",
         "thorough": "d=3 on one base, d=2 on three; all sub-tissues of 11-cell base; lattices at 48 rotations"}
ASSUMPTIONS = ["a two-point interface is the straight segment through its two points",
               "fit budget (L2): taubinSVD 1e-9 on any curved arc; dlite 1e-7 on arcs turning >= 0.1 rad (leastsq termination tolerance), 5e-3 on flatter arcs; collinear points exact; translations <= 10 tissue sizes",
               "L1 uses the library's public calculate_circle_center for the centre (fit accuracy is judged separately by L2)"]
REQUIRED_TAGS = {"all": ["rows>0", "straight", "curved", "two_point", "ignore_four", "taubin", "fourfold", "axis_aligned", "lens", "mixed_point_counts", "rebuilt", "rebuilt_other_objects", "shared_options_object"]}

L1_TOL = 1e-11


def fit_budget(fit, turning, npts, straight):
    if npts < 3:
        return 1e-11
    if straight:
        return 5e-3
    if fit == "taubinSVD":
        return 1e-9 if turning >= 1e-3 else 5e-3
    # dlite = scipy leastsq with its default termination tolerances (1.49e-8, relative): worst observed on exact arcs 7e-9
    return 1e-7 if turning >= 0.1 else 5e-3


def unit(z):
    return z / abs(z)


def evaluate_matrix(at, k, cm, fit, ignore_four, lab=None, want_obs=False, prebuilds=(), metadata=None):
    """build the tissue, the frame and the ForceMatrix; judge it. Returns result dict pieces."""
    import forsys as fs
    import forsys.virtual_edges as ve
    viol, known, tags = [], [], []
    with fsutil.quiet():
        v, e, c, info = T.realise(at, k=k, cmap=cm, lab=lab)
        frame = T.frame_of(v, e, c)
        s = fs.ForSys({0: frame})
    for kw in prebuilds:
        # earlier builds on the same objects, with other options: the judged build below must not see any trace of them
        fsutil.call(s.build_force_matrix, when=0, **kw)
    _, ex = fsutil.call(s.build_force_matrix, when=0, circle_fit_method=fit, metadata=metadata if metadata is not None else {"ignore_four": ignore_four}, angle_limit=np.inf)
    if ex is not None:
        return [{"what": "build_force_matrix raised", "detail": fsutil.exc_str(ex)}], known, tags, None
    fm = s.force_matrices[0]
    ref = RT.reference_system(at, cm, ignore_four)
    mb = T.match_big_edges(frame, info, at)
    jid_of = {vid: j for j, vid in info["jvid"].items()}
    # ---- columns
    cols_ii = []
    bad_cols = False
    for el in fm.big_edges_to_use:
        try:
            beid = frame.big_edges_list.index(list(el))
        except ValueError:
            beid = None
        path = mb.get(beid) if beid is not None else None
        if not path or len(path) != 1:
            bad_cols = True
            cols_ii.append(None)
        else:
            cols_ii.append(path[0][0])
    extra = sorted(set(x for x in cols_ii if x is not None) - set(ref["cols"]))
    if extra and not bad_cols and len(set(cols_ii)) == len(cols_ii) and set(ref["cols"]) <= set(cols_ii):
        # F16 (known finding of C08, same root): a TWO-POINT interface on the tissue border that joins a junction of >= 3 cells and
        # >= 4 interfaces to a junction of 2 cells passes the library's vertex-membership test for 'internal'
        jc, jd = T.junction_cells(at), T.junction_degree(at)
        ks = T.sample_counts(at, k)

        def f16(ii):
            it = at["I"][ii]
            if ks[ii] != 0 or (it["L"] is None) == (it["R"] is None):
                return False
            big = [j for j in (it["a"], it["b"]) if len(jc[j]) >= 3 and jd[j] >= 4]
            return bool(big) and all(len(jc[j]) >= 2 for j in (it["a"], it["b"]))
        if all(f16(ii) for ii in extra):
            known.append({"id": "F16", "interfaces": extra})
            return viol, known, tags + ["F16_no_verdict"], None
    if bad_cols or sorted(x for x in cols_ii if x is not None) != sorted(ref["cols"]) or len(set(cols_ii)) != len(cols_ii):
        viol.append({"what": "unknowns are not exactly the internal interfaces, each once",
                     "detail": {"got": cols_ii[:30], "exp": ref["cols"][:30]}})
    # ---- rows
    rows_got = {}
    for vid, r in fm.map_vid_to_row.items():
        rows_got[jid_of.get(vid, "v%s" % vid)] = r
    M = np.asarray(fm.matrix, float)
    if set(rows_got) != set(ref["rows"]):
        # F6: two internal interfaces sharing both end junctions collapse into one column
        viol.append({"what": "junctions with equations differ from 'shared by >=3 cells and >=3 internal interfaces%s'" % (", fewer than 4" if ignore_four else ""),
                     "detail": {"extra": sorted(set(rows_got) - set(ref["rows"]))[:10], "missing": sorted(set(ref["rows"]) - set(rows_got))[:10]}})
    if sorted(rows_got.values()) != list(range(0, 2 * len(rows_got), 2)):
        viol.append({"what": "row pairs are not distinct contiguous pairs", "detail": sorted(rows_got.values())[:20]})
    if M.shape != (2 * len(rows_got), len(cols_ii)):
        viol.append({"what": "matrix shape is not (2 x junctions, interfaces)", "detail": {"shape": list(M.shape), "junctions": len(rows_got), "interfaces": len(cols_ii)}})
    if viol:
        return viol, known, tags, None
    # ---- coefficients
    tg = T.tangents(at, cm)
    worst_l2 = 0.0
    n_f1 = 0
    for j, r in rows_got.items():
        jv = info["jvid"][j]
        for cpos, ii in enumerate(cols_ii):
            it = at["I"][ii]
            pair = complex(M[r, cpos], M[r + 1, cpos])
            at_a = it["a"] == j
            at_b = it["b"] == j
            if not (at_a or at_b):
                if pair != 0:
                    viol.append({"what": "non-zero coefficient for an interface that does not end at the junction", "detail": {"junction": j, "interface": ii, "pair": [pair.real, pair.imag]}})
                continue
            chain = info["chain"][ii]
            be = frame.big_edges[frame.big_edges_list.index(list(fm.big_edges_to_use[cpos]))]
            pts = [complex(x.x, x.y) for x in be.vertices]
            ids = be.get_vertices_ids()
            if ids[0] != jv:
                pts = pts[::-1]
            zj = pts[0]
            chord = pts[1] - pts[0]
            with np.errstate(all="ignore"):
                if len(pts) < 3:
                    exp = unit(chord)
                    analytic = unit(chord)
                    straight = True
                    turning = 0.0
                else:
                    with fsutil.quiet():
                        xc, yc = ve.calculate_circle_center(be.vertices, method=fit)
                    rad = zj - complex(xc, yc)
                    exp = unit(1j * rad)
                    dotc = exp.real * chord.real + exp.imag * chord.imag
                    span = pts[-1] - pts[0]
                    if max(abs((p - pts[0]).real * span.imag - (p - pts[0]).imag * span.real) for p in pts) <= 1e-9 * abs(span) ** 2:
                        # all points collinear: the interface is a straight line ("circle (or line)" of the statement)
                        exp = unit(chord)
                    elif dotc < 0:
                        exp = -exp
                    ta, tb = tg[ii]
                    analytic = ta if at_a else tb
                    turning = abs(cmath.phase(-tb / ta))
                    straight = turning < 1e-12
                # what per-component sign forcing (F1) would produce from the same centre
                sgn = [1.0 if chord.real == 0 else math.copysign(1.0, chord.real), 1.0 if chord.imag == 0 else math.copysign(1.0, chord.imag)]
                pred_f1 = complex(abs(exp.real) * sgn[0], abs(exp.imag) * sgn[1])
                bud = fit_budget(fit, turning, len(pts), straight)
                dA = abs(pair - analytic)
                d1 = abs(pair - exp)
                worst_l2 = max(worst_l2, dA / bud)
                if dA <= bud:
                    # the coefficient pair IS the unit tangent within the accuracy that can be demanded of this fit; whether it was
                    # computed from the public calculate_circle_center or otherwise is not the property's business
                    if d1 > L1_TOL:
                        tags.append("advisory:differs_from_public_centre_within_budget")
                elif abs(pair - pred_f1) <= L1_TOL and len(pts) >= 3 and abs(pred_f1 - exp) > L1_TOL:
                    n_f1 += 1
                    known.append({"id": "F1", "junction": j, "interface": ii, "pair": [pair.real, pair.imag], "tangent": [exp.real, exp.imag]})
                elif len(pts) < 3 and not straight:
                    known.append({"id": "F2", "junction": j, "interface": ii, "pair": [pair.real, pair.imag], "chord": [exp.real, exp.imag]})
                elif d1 <= L1_TOL and fit == "dlite" and len(pts) >= 3 and not straight and turning < 0.1 and dA < 0.08 \
                        and pairs.dlite_underconverged(pts, complex(xc, yc)):
                    # F22: construction is right (pair = tangent of the library's own centre) but leastsq stopped far from the optimum
                    known.append({"id": "F22", "junction": j, "interface": ii, "err": dA, "turning": turning, "npts": len(pts)})
                else:
                    viol.append({"what": "coefficient pair is not the unit tangent of the interface's circle (or line) at the junction, pointing along the interface",
                                 "detail": {"junction": j, "interface": ii, "pair": [pair.real, pair.imag], "analytic": [analytic.real, analytic.imag],
                                            "from_public_centre": [exp.real, exp.imag], "err": dA, "budget": bud, "fit": fit, "npts": len(pts), "turning": turning}})
                if min(abs(analytic.real), abs(analytic.imag)) < 1e-12:
                    tags.append("axis_aligned")
            if len(viol) > 6:
                break
    if rows_got:
        tags.append("rows>0")
    obs = None
    if want_obs:
        obs = {"rows": sorted(rows_got), "cols": sorted(cols_ii)}
    return viol, known, sorted(set(tags)), obs


MIXED = [["mod3", 0, 3, 1], ["mod3", 5, 2, 0], ["mod3", 1, 16, 2]]      # different numbers of points on different interfaces
MOBS = [["m", 0.05, 0.02], ["id"], ["m", 1e-4, 0.0], ["m", 0.01, 0.0], ["m", 0.12, 0.05], ["mc", 0.05, 0.02], ["mc", 0.12, 0.05], ["idc"]]


def make_cmap(mobspec, theta, trans, scale, extent):
    ops = []
    if mobspec[0] in ("m", "mc"):
        ops.append(T.mob(complex(mobspec[1], mobspec[2]) / max(extent / 4.0, 1.0)))
    if mobspec[0] in ("mc", "idc"):
        ops.append(T.CONJ)
    ops.append(T.aff(scale * cmath.exp(1j * theta), complex(trans[0], trans[1]) * extent * scale))
    return T.CMap(ops)


def extent_of(at):
    xs = [p[0] for p in at["J"].values()]
    ys = [p[1] for p in at["J"].values()]
    return max(max(xs) - min(xs), max(ys) - min(ys))


def aligned_angles(at, mobspec, m=4):
    """rotation angles that put one of the first m junction tangents exactly on an axis, and slightly off"""
    cm = make_cmap(mobspec, 0.0, (0, 0), 1.0, extent_of(at))
    ref = RT.reference_system(at, cm)
    out = []
    n = 0
    for j in ref["rows"]:
        for ii, t in ref["ends"][j]:
            if n >= m:
                break
            base = -cmath.phase(t)
            for off in (0.0, 1e-6, -1e-6, math.radians(0.2), -math.radians(0.2), math.radians(2), -math.radians(2)):
                out.append(base + off)
            n += 1
    return out


class Geometry(ProductSystem):
    chunk = 4

    def __init__(self, base_names, bound, nrot, seed):
        self.name = "geometry-d%d:%s" % (bound, "+".join(base_names))
        self._bases = base_names
        self.bound = bound
        self.nrot = nrot
        self.seed = seed
        self._axes = {}

    def bases(self):
        return self._bases

    def axes(self, base):
        if base not in self._axes:
            at = bases.get(base)
            th0 = 0.1234 + 0.37 * self.seed
            rots = [th0 + 2 * math.pi * i / self.nrot for i in range(self.nrot)] + aligned_angles(at, MOBS[0])
            self._axes[base] = {
                "mob": MOBS,
                "rot": rots,
                "trans": [[0, 0], [3, 1], [-10, 4], [0.5, -7]],
                "scale": [1.0, 1e-3, 1e3],
                "k": [3] + [x for x in range(0, 17) if x != 3] + MIXED,
                "fit": ["dlite", "taubinSVD"],
                "ign": [False, True],
            }
        return self._axes[base]

    def eval_config(self, base, cfg):
        at = bases.get(base)
        cm = make_cmap(cfg["mob"], cfg["rot"], cfg["trans"], cfg["scale"], extent_of(at))
        viol, known, tags, obs = evaluate_matrix(at, cfg["k"], cm, cfg["fit"], cfg["ign"], want_obs=True)
        tags = list(tags)
        tags.append("straight" if cfg["mob"][0] in ("id", "idc") else "curved")
        if cfg["k"] == 0:
            tags.append("two_point")
        if isinstance(cfg["k"], list):
            tags.append("mixed_point_counts")
        if cfg["ign"]:
            tags.append("ignore_four")
        if cfg["fit"] == "taubinSVD":
            tags.append("taubin")
        cls = "%s/%s/%s/%s/%s" % (base, cfg["mob"], cfg["k"], cfg["fit"], cfg["ign"])
        return {"viol": viol, "known": known, "tags": tags, "cls": cls, "obs": obs, "nontrivial": bool(obs and obs["rows"])}

    def check_pair(self, base, axis, cfg1, r1, cfg2, r2):
        # none of the axes changes the topology (ignore_four is a no-op on 3-fold tissues): same junctions, same unknowns
        if r1["obs"] and r2["obs"] and r1["obs"] != r2["obs"]:
            return [{"what": "changing '%s' changed the set of equations/unknowns of the same tissue" % axis, "detail": {"a": r1["obs"], "b": r2["obs"]}}], []
        return [], []


class SubTissues:
    chunk = 8

    def __init__(self, base, ks, maps):
        self.base = base
        self.name = "subtissues:%s" % base
        self.at = bases.get(base)
        self.adj = T.cell_adjacency(self.at)
        self.ks, self.maps = ks, maps
        self.bound = len(self.at["C"])

    def initial(self):
        return [{"cells": [c], "k": k, "map": m} for c in sorted(self.at["C"], key=int) for k in self.ks for m in range(len(self.maps))]

    def actions(self, d):
        S = set(d["cells"])
        return [["add", c] for c in sorted({y for x in S for y in self.adj[x]} - S, key=int)]

    def step(self, d, a):
        return {"cells": sorted(d["cells"] + [a[1]], key=int), "k": d["k"], "map": d["map"]}

    def evaluate(self, d):
        sub = T.sub_tissue(self.at, d["cells"])
        ms = self.maps[d["map"]]
        cm = make_cmap(ms, 0.3, (0, 0), 1.0, extent_of(self.at))
        viol, known, tags, obs = evaluate_matrix(sub, d["k"], cm, "dlite", False, want_obs=True)
        tags = list(tags) + ["straight" if ms[0] in ("id", "idc") else "curved"] + (["two_point"] if d["k"] == 0 else [])
        key = "%s|%s|%s|%s" % (self.base, ",".join(d["cells"]), d["k"], d["map"])
        nrows = len(obs["rows"]) if obs else -1
        return {"key": key, "viol": viol, "known": known, "tags": tags, "cls": "%d/%d/%s/%s" % (len(d["cells"]), nrows, d["k"], d["map"]),
                "obs": obs, "nontrivial": nrows > 0}

    def check_edge(self, d, a, d2, r, r2):
        # adding a cell never removes an equation or an unknown (abstract interface indices are renumbered per sub-tissue,
        # so compare counts only)
        if r["obs"] and r2["obs"] and (len(r2["obs"]["rows"]) < len(r["obs"]["rows"]) or len(r2["obs"]["cols"]) < len(r["obs"]["cols"])):
            return [{"what": "adding a cell removed a junction equation or an unknown", "detail": {"before": r["obs"], "after": r2["obs"]}}], []
        return [], []


def fan_polys(n, ring=True):
    """n triangles around a centre (n-fold junction) surrounded by a ring of n quadrilaterals"""
    polys = []
    P = [(math.cos(2 * math.pi * i / n + 0.05), math.sin(2 * math.pi * i / n + 0.05)) for i in range(n)]
    Q = [(2.2 * math.cos(2 * math.pi * i / n + 0.05), 2.2 * math.sin(2 * math.pi * i / n + 0.05)) for i in range(n)]
    for i in range(n):
        polys.append([(0.0, 0.0), P[i], P[(i + 1) % n]])
    if ring:
        for i in range(n):
            polys.append([P[i], Q[i], Q[(i + 1) % n], P[(i + 1) % n]])
    return polys


LATTICES = {
    "square4x4": lambda: T.polygons_at(T.square_polys(4, 4)),
    "brick4x4": lambda: T.polygons_at(T.brick_polys(4, 4)),
    "hex3x3": lambda: T.polygons_at(T.hex_polys(3, 3)),
    "fan5": lambda: T.polygons_at(fan_polys(5)),
    "fan6": lambda: T.polygons_at(fan_polys(6)),
    "fan4": lambda: T.polygons_at(fan_polys(4)),
    "lens": lambda: T.lens_at(0.8),
}
_LAT = {}


def lattice(name):
    if name not in _LAT:
        _LAT[name] = LATTICES[name]()
    return _LAT[name]


class Lattices(ProductSystem):
    chunk = 4
    bound = 3

    def __init__(self, names, nrot):
        self.name = "lattices"
        self._names = names
        self.nrot = nrot

    def bases(self):
        return self._names

    def axes(self, base):
        return {"rot": [0.0] + [2 * math.pi * i / self.nrot for i in range(1, self.nrot)] + [math.pi / 2, math.pi, 1e-7],
                "k": [2, 0, 1, 5] + MIXED,
                "ign": [False, True],
                "fit": ["dlite", "taubinSVD"]}

    def eval_config(self, base, cfg):
        at = lattice(base)
        cm = T.CMap([T.rot(cfg["rot"])]) if cfg["rot"] else T.CMap()
        if T.coincident_two_point(at, cfg["k"]):
            # with two points per interface the two sides of the lens are the same pair of vertices: not a planar mesh
            return {"viol": [], "tags": ["lens_k0_outside"], "cls": "lens-k0", "outdom": True, "obs": None}
        viol, known, tags, obs = evaluate_matrix(at, cfg["k"], cm, cfg["fit"], cfg["ign"], want_obs=True)
        tags = list(tags) + (["straight"] if base != "lens" else ["lens"])
        if cfg["ign"]:
            tags.append("ignore_four")
        if cfg["k"] == 0:
            tags.append("two_point")
        if isinstance(cfg["k"], list):
            tags.append("mixed_point_counts")
        ref = RT.reference_system(at, cm, False)
        if any(len(ref["ends"][j]) >= 4 for j in ref["rows"]):
            tags.append("fourfold")
        return {"viol": viol, "known": known, "tags": tags, "cls": "%s/%s/%s/%s" % (base, cfg["k"], cfg["ign"], cfg["fit"]), "obs": obs,
                "nontrivial": bool(obs and obs["rows"])}

    def check_pair(self, base, axis, cfg1, r1, cfg2, r2):
        if axis in ("rot", "k", "fit") and r1["obs"] and r2["obs"] and r1["obs"] != r2["obs"]:
            return [{"what": "changing '%s' changed the set of equations/unknowns of the same lattice" % axis, "detail": {"a": r1["obs"], "b": r2["obs"]}}], []
        return [], []


def eval_rebuild(d):
    """the matrix is assembled a second time on the SAME objects after an earlier build with other options (an excluding angle
    limit, the other fit, ignore_four): the second matrix is judged exactly like a first one"""
    from checks import c10
    at = bases.get(d["base"])
    cm = make_cmap(d["mob"], d["rot"], (0, 0), 1.0, extent_of(at))
    pre = d["pre"]
    kws = []
    for p_ in pre:
        if p_ == "excluding":
            kws.append({"angle_limit": c10.angle_limit_for(at, cm)})
        elif p_ == "pi":
            kws.append({"angle_limit": math.pi})
        elif p_ == "other_fit":
            kws.append({"circle_fit_method": "taubinSVD" if d["fit"] == "dlite" else "dlite"})
        elif p_ == "ignore_four":
            kws.append({"metadata": {"ignore_four": True}})
        elif p_ == "default":
            kws.append({})
    if pre == ["shared_options_object"]:
        # the caller keeps ONE options dict and passes it to every build (a loop over fits or frames): the second build must
        # still see ignore_four=True
        md = {"ignore_four": True}
        viol, known, tags, obs = evaluate_matrix(at, 3, cm, d["fit"], True, prebuilds=[{"metadata": md, "circle_fit_method": "taubinSVD"}], metadata=md)
        for v in viol:
            v["what"] = "[second build with the same options dict object] " + v["what"]
        return {"viol": viol, "known": known, "tags": list(tags) + ["rebuilt", "rebuilt_same_objects", "shared_options_object"],
                "cls": "%s/%s/%s/shared-options" % (d["base"], d["mob"][0], d["fit"]), "nontrivial": True}
    if d.get("other"):
        # the earlier builds happen on OTHER objects (another ForSys of the same tissue in the same process): state shared
        # between objects (class attributes, mutable defaults, module globals) must not reach the judged, freshly built objects
        for kw in kws:
            at2 = bases.get(d["base"])
            with fsutil.quiet():
                import forsys as fs
                v2, e2, c2, _ = T.realise(at2, k=3, cmap=cm)
                s2 = fs.ForSys({0: T.frame_of(v2, e2, c2)})
            fsutil.call(s2.build_force_matrix, when=0, **kw)
            fsutil.call(s2.solve_stress, when=0)
        viol, known, tags, obs = evaluate_matrix(at, 3, cm, d["fit"], False)
        where = "on other objects in the same process"
    else:
        viol, known, tags, obs = evaluate_matrix(at, 3, cm, d["fit"], False, prebuilds=kws)
        where = "on the same objects"
    for v in viol:
        v["what"] = "[after earlier builds %s %s] %s" % (pre, where, v["what"])
    return {"viol": viol, "known": known, "tags": list(tags) + ["rebuilt", "rebuilt_other_objects" if d.get("other") else "rebuilt_same_objects"],
            "cls": "%s/%s/%s/%s/%s" % (d["base"], d["mob"][0], d["fit"], "+".join(pre), bool(d.get("other"))), "nontrivial": True}


def build(tier, seed):
    if tier == "quick":
        return [Geometry(["v5x5", "v4x4p%d" % (seed + 1)], 2, 12, seed),
                SubTissues("v5x4", [0, 1, 2, 5], [["id"], ["m", 0.05, 0.02]]),
                SubTissues("fan5", [2, ["mod3", 0, 3, 1]], [["id"], ["m", 0.05, 0.02]]),       # many-fold junctions ON the border
                SubTissues("square3x3", [1], [["m", 0.05, 0.02]]),
                Lattices(["square4x4", "brick4x4", "hex3x3", "fan5", "fan6", "fan4", "lens"], 12),
                ListSystem("rebuilds", [{"base": b, "mob": m, "fit": f, "pre": pre, "rot": 0.1234 + 0.37 * seed, "other": oth}
                                        for oth in (False, True) for b in ("v5x5", "fan5") for m in (["m", 0.05, 0.02], ["id"]) for f in ("dlite", "taubinSVD")
                                        for pre in (["excluding"], ["pi"], ["other_fit"], ["ignore_four"], ["excluding", "default"], ["ignore_four", "excluding"], ["shared_options_object"])], eval_rebuild)]
    return [Geometry(["v5x5"], 3, 24, seed),
            Geometry(["v6x5", "v6x6", "v5x4p%d" % (seed + 1)], 2, 48, seed),
            SubTissues("v5x5", [0, 1, 2, 5], [["id"], ["m", 0.05, 0.02], ["mc", 0.12, 0.05]]),
            Lattices(["square4x4", "brick4x4", "hex3x3", "fan5", "fan6", "fan4", "lens"], 48),
            ListSystem("rebuilds", [{"base": b, "mob": m, "fit": f, "pre": list(pre), "rot": 0.1234 + 0.37 * seed, "other": oth}
                                    for oth in (False, True) for b in ("v5x5", "v6x5", "fan5", "square4x4", "lens") for m in (["m", 0.05, 0.02], ["id"], ["mc", 0.12, 0.05]) for f in ("dlite", "taubinSVD")
                                    for n_ in (1, 2) for pre in list(itertools.product(["excluding", "pi", "other_fit", "ignore_four", "default"], repeat=n_)) + ([["shared_options_object"]] if n_ == 1 else [])], eval_rebuild)]
