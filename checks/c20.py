"""C20 — cell geometry primitives: signed area, perimeter, orientation, neighbours.

Every simple polygon with 3..N vertices on a 4x4 integer grid (N=5 quick, 6 thorough) is a state; its
variants (every cyclic shift, both orientations, translations, scalings) are reached by transitions
and judged by the metamorphic relations of the statement; the state itself is judged against an
independent shoelace/perimeter reference. Sub-tissues: area sum vs outline area, neighbours."""
import itertools
import math

from fsmc import bases, tissue as T, fsutil
from fsmc.explorer import ListSystem

PID = "C20"
RULE = ("every canonical vertex sequence (start at the smallest grid point, second < last) over 4x4 grid points that forms a "
        "simple polygon, each in all cyclic shifts x both orientations x {identity, translation, x3, x0.5}; regular/star polygons "
        "of 3..80 vertices; every cell of every connected sub-tissue. non-trivial = non-zero area; classes = (n, |area|, perimeter)")
BOUND = {"quick": "all simple grid polygons with 3..5 vertices (4x4 grid), all shifts and orientations; stars/regular 3..80, each under 8 translations / length factors (offsets to 3e4, factors 1e-7..1e5); all sub-tissues of a 7-cell base; remove_cell histories to depth 2 on 2 tissues, at either frame of a two-frame series",
         "thorough": "all simple grid polygons with 3..6 vertices (4x4 grid); all sub-tissues of 11-cell base and square3x3; remove_cell histories to depth 3 (4 on square3x3)"}
ASSUMPTIONS = ["zero-area vertex sequences are not polygons and are not generated", "y-up frame"]
REQUIRED_TAGS = {"all": ["polygon_block", "star", "subtissue_holefree", "nonconvex", "history", "vertex_only_neighbours", "removed_1", "removed_2", "two_frames_at_0", "two_frames_at_1"]}

GRID = [(x, y) for y in range(4) for x in range(4)]


def _orient(a, b, c):
    return (b[0] - a[0]) * (c[1] - a[1]) - (b[1] - a[1]) * (c[0] - a[0])


def _on(a, b, p):
    return _orient(a, b, p) == 0 and min(a[0], b[0]) <= p[0] <= max(a[0], b[0]) and min(a[1], b[1]) <= p[1] <= max(a[1], b[1])


def _seg_inter(a, b, c, d):
    o1, o2, o3, o4 = _orient(a, b, c), _orient(a, b, d), _orient(c, d, a), _orient(c, d, b)
    if ((o1 > 0) != (o2 > 0)) and o1 != 0 and o2 != 0 and ((o3 > 0) != (o4 > 0)) and o3 != 0 and o4 != 0:
        return True
    return _on(a, b, c) or _on(a, b, d) or _on(c, d, a) or _on(c, d, b)


def is_simple(P):
    n = len(P)
    for i in range(n):
        a, b = P[i], P[(i + 1) % n]
        for j in range(i + 1, n):
            c, d = P[j], P[(j + 1) % n]
            if j == i + 1 or (i == 0 and j == n - 1):
                # adjacent sides share one end point; they must not overlap (spike)
                shared = b if j == i + 1 else a
                other1 = a if j == i + 1 else b
                other2 = d if j == i + 1 else c
                if _orient(shared, other1, other2) == 0 and ((other1[0] - shared[0]) * (other2[0] - shared[0]) + (other1[1] - shared[1]) * (other2[1] - shared[1])) > 0:
                    return False
                continue
            if _seg_inter(a, b, c, d):
                return False
    return True


def ref_area(P):
    """signed shoelace area, positive for counter-clockwise in a y-up frame"""
    n = len(P)
    return 0.5 * math.fsum(P[i][0] * P[(i + 1) % n][1] - P[(i + 1) % n][0] * P[i][1] for i in range(n))


def ref_perimeter(P):
    n = len(P)
    return math.fsum(math.hypot(P[i][0] - P[(i + 1) % n][0], P[i][1] - P[(i + 1) % n][1]) for i in range(n))


def make_cell(P, method="centroid"):
    import forsys.vertex as fv
    import forsys.cell as fc
    vs = [fv.Vertex(i, float(p[0]), float(p[1])) for i, p in enumerate(P)]
    return fc.Cell(0, vs, center_method=method), vs


def observe(P, method="centroid"):
    with fsutil.quiet():
        c, vs = make_cell(P, method)
        a = float(c.get_area())
        sg = int(c.get_area_sign())
        per = float(c.get_perimeter())
        nxt = [vs.index(c.get_next_vertex(v)) for v in vs]
        prv = [vs.index(c.get_previous_vertex(v)) for v in vs]
    return a, sg, per, nxt, prv


def check_polygon(P, viol, tol=1e-9):
    """state oracle; returns the observation"""
    n = len(P)
    a, sg, per, nxt, prv = observe(P)
    ra = ref_area(P)
    rp = ref_perimeter(P)
    # relative tolerance plus the rounding of a shoelace sum over coordinates of magnitude M (so that neither a small length
    # unit nor a large offset from the origin turns the comparison into a formality)
    M = max(max(abs(q[0]), abs(q[1])) for q in P)
    tol_a = tol * abs(ra) + 8 * n * 2.3e-16 * M * M
    tol_p = tol * rp + 8 * n * 2.3e-16 * M
    if abs(a + ra) > tol_a:
        viol.append({"what": "get_area is not minus the counter-clockwise shoelace area", "detail": {"P": P, "got": a, "ref": -ra}})
    if sg != (1 if -ra > 0 else -1):
        viol.append({"what": "get_area_sign wrong", "detail": {"P": P, "got": sg, "ref_area_ccw": ra}})
    if abs(per - rp) > tol_p:
        viol.append({"what": "get_perimeter is not the length of the closed cycle", "detail": {"P": P, "got": per, "ref": rp}})
    exp_sg = 1 if -ra > 0 else -1
    if nxt != [(i + exp_sg) % n for i in range(n)] or prv != [(i - exp_sg) % n for i in range(n)]:
        viol.append({"what": "next/previous-vertex navigation does not walk the cycle in the sense of the area sign", "detail": {"P": P, "next": nxt, "prev": prv}})
    # geometric reading: 'next' always walks clockwise (y-up) whichever way the cycle is stored
    walk = [0]
    for _ in range(n - 1):
        walk.append(nxt[walk[-1]])
    if sorted(walk) != list(range(n)) or ref_area([P[i] for i in walk]) >= 0:
        viol.append({"what": "following get_next_vertex does not traverse the whole cycle clockwise", "detail": {"P": P, "walk": walk}})
    return a, per


def variants_check(P, viol, full_tr):
    """transitions from polygon P: cyclic shifts, reversal, translation, scaling. Returns (#states, #transitions)"""
    n = len(P)
    a0, p0 = check_polygon(P, viol)
    states, trans = 1, 0
    trs = [("id", 1.0, (0.0, 0.0)), ("tr", 1.0, (5.0, -3.0)), ("x3", 3.0, (0.0, 0.0)), ("x.5", 0.5, (0.0, 0.0)),
           ("far", 1.0, (2000.0, 1500.0)), ("far4", 1.0, (1e4, -3e4)), ("x1e-5", 1e-5, (0.0, 0.0)), ("x1e-7", 1e-7, (0.0, 0.0)), ("x1e5", 1e5, (0.0, 0.0))]
    for s in range(n):
        for rev in (0, 1):
            Q = P[s:] + P[:s]
            if rev:
                Q = Q[::-1]
            for (nm, f, t) in (trs if (full_tr or s == 0) else trs[:1]):
                if s == 0 and rev == 0 and nm == "id":
                    continue
                R = [(q[0] * f + t[0], q[1] * f + t[1]) for q in Q]
                a, p = check_polygon(R, viol)
                states += 1
                trans += 1
                exp_a = (-a0 if rev else a0) * f * f
                M = max(max(abs(q[0]), abs(q[1])) for q in R)
                if abs(a - exp_a) > 1e-9 * abs(exp_a) + 16 * n * 2.3e-16 * M * M:
                    viol.append({"what": "area not invariant under shift/translation, not sign-flipped by reversal, or not scaling with the square of the length factor",
                                 "detail": {"P": P, "shift": s, "rev": rev, "tr": nm, "got": a, "exp": exp_a}})
                if abs(p - p0 * f) > 1e-9 * p0 * f + 16 * n * 2.3e-16 * M:
                    viol.append({"what": "perimeter not invariant under shift/reversal/translation or not scaling with the length factor",
                                 "detail": {"P": P, "shift": s, "rev": rev, "tr": nm, "got": p, "exp": p0 * f}})
    return states, trans


NBLOCKS = 64


def eval_block(d):
    n, blk, full_tr = d["n"], d["block"], d["full_tr"]
    viol = []
    states = trans = 0
    classes = set()
    nonconvex = 0
    for ci, combo in enumerate(itertools.combinations(range(16), n)):
        if ci % NBLOCKS != blk:
            continue
        p0 = combo[0]
        rest = combo[1:]
        for perm in itertools.permutations(rest):
            if perm[0] > perm[-1]:
                continue
            P = [GRID[p0]] + [GRID[i] for i in perm]
            if not is_simple(P) or ref_area(P) == 0:
                continue
            s, t = variants_check(P, viol, full_tr)
            states += s
            trans += t
            classes.add("%d/%.2f/%.4f" % (n, abs(ref_area(P)), ref_perimeter(P)))
            m = len(P)
            turns = [_orient(P[i], P[(i + 1) % m], P[(i + 2) % m]) for i in range(m)]
            if any(x > 0 for x in turns) and any(x < 0 for x in turns):
                nonconvex += 1
            if len(viol) > 20:
                break
    tags = ["polygon_block"] + (["nonconvex"] if nonconvex else [])
    return {"viol": viol[:5], "tags": tags, "cls": "block%d/%d" % (n, blk), "extra_states": states, "extra_transitions": trans,
            "extra_classes": sorted(classes)[:400], "extra_evaluations": states, "nontrivial": states > 0}


def eval_star(d):
    n, kind = d["n"], d["kind"]
    viol = []
    P = []
    for i in range(n):
        r = 1.0 if (kind == "regular" or i % 2 == 0) else 0.45
        ang = 2 * math.pi * i / n + 0.1
        P.append((3.0 + r * math.cos(ang), -2.0 + r * math.sin(ang)))
    s, t = variants_check(P, viol, True)
    # also with the library's default circle-fit centre (does not enter the primitives)
    a, sg, per, nxt, prv = observe(P, method="dlite")
    if abs(a + ref_area(P)) > 1e-9 or abs(per - ref_perimeter(P)) > 1e-9:
        viol.append({"what": "area/perimeter depend on the centre method", "detail": {"n": n, "kind": kind}})
    return {"viol": viol[:5], "tags": ["star"], "cls": "%s%d" % (kind, n), "extra_states": s, "extra_transitions": t, "extra_evaluations": s}


def outline_area(at, jpos, ipts):
    """area enclosed by the outline of a tissue if the outline is a single loop, else None (holes / pinches)"""
    nxt = {}
    segs = []
    for ii, it in enumerate(at["I"]):
        if (it["L"] is None) == (it["R"] is None):
            continue
        # walk so that the tissue is on the left
        pts = ipts[ii] if it["L"] is not None else ipts[ii][::-1]
        a, b = (it["a"], it["b"]) if it["L"] is not None else (it["b"], it["a"])
        if a in nxt:
            return None
        nxt[a] = (b, pts)
        segs.append(a)
    if not nxt:
        return None
    start = segs[0]
    cur = start
    poly = []
    seen = 0
    while True:
        if cur not in nxt:
            return None
        b, pts = nxt[cur]
        poly += pts[:-1]
        seen += 1
        cur = b
        if cur == start:
            break
        if seen > len(nxt):
            return None
    if seen != len(nxt):
        return None
    return abs(ref_area([(z.real, z.imag) for z in poly]))


class SubTissueCells:
    """states = connected sub-tissues (grown cell by cell); oracle: per-cell primitives, area sum, neighbours"""
    chunk = 16

    def __init__(self, base, ks, flips):
        self.base = base
        self.name = "cells-of-subtissues:%s" % base
        self.at = bases.get(base)
        self.adj = T.cell_adjacency(self.at)
        self.ks = ks
        self.flips = flips
        self.bound = len(self.at["C"])

    def initial(self):
        return [{"cells": [c], "k": k, "flip": f} for c in sorted(self.at["C"], key=int) for k in self.ks for f in self.flips]

    def actions(self, d):
        S = set(d["cells"])
        return [["add", c] for c in sorted({y for x in S for y in self.adj[x]} - S, key=int)]

    def step(self, d, a):
        return {"cells": sorted(d["cells"] + [a[1]], key=int), "k": d["k"], "flip": d["flip"]}

    def evaluate(self, d):
        sub = T.sub_tissue(self.at, d["cells"])
        cm = T.CMap([T.mob(0.04 + 0.02j)]) if d["k"] else T.CMap()
        flips = [c for i, c in enumerate(sorted(sub["C"], key=int)) if (d["flip"] == "all" or (d["flip"] == "alt" and i % 2))]
        with fsutil.quiet():
            v, e, c, info = T.realise(sub, k=d["k"], cmap=cm, lab={"flips": flips, "shifts": {x: 2 for x in flips}})
        jpos, ipts = T.geometry(sub, d["k"], cm)
        viol = []
        tags_local = []
        tot = 0.0
        inv = {fid: cid for cid, fid in info["cellid"].items()}
        cyc = {cid: {vv.id for vv in cc.vertices} for cid, cc in c.items()}
        for cid, cc in c.items():
            P = [(vv.x, vv.y) for vv in cc.vertices]
            with fsutil.quiet():
                a = float(cc.get_area())
                per = float(cc.get_perimeter())
                nb = sorted(cc.calculate_neighbors())
            tot += abs(a)
            if abs(a + ref_area(P)) > 1e-9 or abs(per - ref_perimeter(P)) > 1e-9:
                viol.append({"what": "cell area/perimeter differ from the shoelace reference", "detail": {"cell": inv[cid]}})
            stored_ccw = inv[cid] not in flips
            if (a < 0) != stored_ccw:
                viol.append({"what": "area sign does not reflect the stored orientation", "detail": {"cell": inv[cid], "area": a, "stored_ccw": stored_ccw}})
            exp_nb = sorted(o for o in c if o != cid and cyc[o] & cyc[cid])
            if any(len(cyc[o] & cyc[cid]) == 1 for o in exp_nb):
                tags_local.append("vertex_only_neighbours")
            if nb != exp_nb:
                viol.append({"what": "calculate_neighbors is not the set of other cells sharing a vertex", "detail": {"cell": inv[cid], "got": nb, "exp": exp_nb}})
        oa = outline_area(sub, jpos, ipts)
        tags = sorted(set(tags_local))
        if oa is not None:
            tags.append("subtissue_holefree")
            if abs(tot - oa) > 1e-9 * max(1.0, oa):
                viol.append({"what": "absolute cell areas do not add up to the area enclosed by the outline", "detail": {"sum": tot, "outline": oa}})
        else:
            tags.append("subtissue_with_hole_or_pinch")
        key = "%s|%s|%s|%s" % (self.base, ",".join(d["cells"]), d["k"], d["flip"])
        return {"key": key, "viol": viol, "tags": tags, "cls": "%d/%.6f" % (len(d["cells"]), tot), "obs": {"tot": tot}}

    def check_edge(self, d, a, d2, r, r2):
        # adding a cell adds exactly that cell's area
        sub = T.sub_tissue(self.at, [a[1]])
        cm = T.CMap([T.mob(0.04 + 0.02j)]) if d["k"] else T.CMap()
        jpos, ipts = T.geometry(sub, d["k"], cm)
        poly = []
        for ii, dr in sub["C"][a[1]]:
            pts = ipts[ii] if dr == 1 else ipts[ii][::-1]
            poly += pts[:-1]
        ar = abs(ref_area([(z.real, z.imag) for z in poly]))
        if abs(r2["obs"]["tot"] - r["obs"]["tot"] - ar) > 1e-9 * max(1.0, ar):
            return [{"what": "adding a cell did not add that cell's area to the total", "detail": {"before": r["obs"]["tot"], "after": r2["obs"]["tot"], "cell_area": ar}}], []
        return [], []


class CellHistories:
    """operation histories on ONE live Cell object (queries interleaved with in-place edits of the stored
    cycle, as tests/test_cells.py does), compared after every step with a fresh Cell built from the
    current cycle (differential oracle). The state key includes the whole instance dictionary, so
    hidden caches cannot be merged away."""
    OPS = ["area", "sign", "perimeter", "next", "prev", "neighbors", "edges", "vertices", "reverse_inplace", "reverse_assign", "roll", "mirror_x", "swap_two"]
    chunk = 32

    def __init__(self, depth):
        self.name = "cell-histories"
        self.bound = depth

    def initial(self):
        polys = {"L6ccw": [(0, 0), (3, 0), (3, 1), (1, 1), (1, 3), (0, 3)], "sq_cw": [(0, 0), (0, 2), (2, 2), (2, 0)], "tri": [(0, 0), (4, 0), (1, 3)]}
        return [{"poly": k, "P": [list(p) for p in v], "ops": []} for k, v in polys.items()]

    def actions(self, d):
        return [[o] for o in self.OPS]

    def step(self, d, a):
        return {"poly": d["poly"], "P": d["P"], "ops": d["ops"] + [a[0]]}

    def _apply(self, cell, op):
        vs = cell.vertices
        if op == "area":
            cell.get_area()
        elif op == "sign":
            cell.get_area_sign()
        elif op == "perimeter":
            cell.get_perimeter()
        elif op == "next":
            cell.get_next_vertex(vs[0])
        elif op == "prev":
            cell.get_previous_vertex(vs[-1])
        elif op == "neighbors":
            cell.calculate_neighbors()
        elif op == "edges":
            fsutil.call(cell.get_edges)           # a query: whatever it returns (or raises on a bare cell), it must not edit the cell
        elif op == "vertices":
            cell.get_cell_vertices()
        elif op == "reverse_inplace":
            cell.vertices.reverse()
        elif op == "reverse_assign":
            cell.vertices = cell.vertices[::-1]
        elif op == "roll":
            cell.vertices = cell.vertices[1:] + cell.vertices[:1]
        elif op == "mirror_x":
            for v in vs:
                v.x = -v.x
        elif op == "swap_two":
            # exchanging two neighbouring vertices of a triangle/quad flips or breaks orientation; keep simple: only for triangles
            if len(vs) == 3:
                vs[0], vs[1] = vs[1], vs[0]

    def evaluate(self, d):
        viol = []
        with fsutil.quiet():
            cell, vs = make_cell([tuple(p) for p in d["P"]], "centroid")
            for op in d["ops"]:
                self._apply(cell, op)
            P = [(v.x, v.y) for v in cell.vertices]
            hidden = fsutil.deep_state(cell)    # taken before observing: observation may itself fill caches
            # navigation and perimeter are read BEFORE the sign is asked for, so that the observation
            # itself cannot refresh a stale cache
            nx = [cell.vertices.index(cell.get_next_vertex(v)) for v in cell.vertices]
            pv = [cell.vertices.index(cell.get_previous_vertex(v)) for v in cell.vertices]
            pe = float(cell.get_perimeter())
            live = (float(cell.get_area()), int(cell.get_area_sign()), pe, nx, pv)
        fresh = observe(P)
        if list(live) != list(fresh):
            viol.append({"what": "a cell that was queried and then edited in place reports different geometry than a fresh cell with the same cycle",
                         "detail": {"ops": d["ops"], "live": live, "fresh": fresh}})
        check_polygon(P, viol)
        key = fsutil.state_hash([P, hidden])
        return {"key": key, "viol": viol, "tags": ["history"], "cls": "%s/%s" % (d["poly"], fsutil.state_hash(P)[:6])}

    def check_edge(self, d, a, d2, r, r2):
        return [], []


class RemovalHistories:
    """sub-tissues produced by the library itself: sequences of ForSys.remove_cell on one live object, the cells' stored and
    recomputed neighbours and the area sum being read after every removal (the harness keeps no reference to any Cell, so
    the library's destructor-based bookkeeping runs exactly as it does for a user who only holds the ForSys object)"""
    chunk = 8

    def __init__(self, base, k, depth):
        self.base = base
        self.name = "remove-cell-histories:%s" % base
        self.at = bases.get(base)
        self.k = k
        self.bound = depth

    def initial(self):
        # frame: None = a one-frame ForSys; 0 / 1 = removals at that frame of a two-frame ForSys (same tissue at two times)
        return [{"removed": [], "frame": f} for f in (None, 0, 1)]

    OBSERVERS = ["stress", "tensions", "pressure_matrix", "force_matrix"]

    def actions(self, d):
        acts = [["remove", c] for c in sorted(self.at["C"], key=int) if ["remove", c] not in d["removed"] and c not in d["removed"]]
        # read-only library calls (analysis, tables, matrix assembly): they must leave the cells' vertex bookkeeping alone
        acts += [["obs", o] for o in self.OBSERVERS if not d["removed"] or d["removed"][-1] != ["obs", o]]
        return acts

    def step(self, d, a):
        return {"removed": d["removed"] + [a[1] if a[0] == "remove" else list(a)], "frame": d["frame"]}

    @staticmethod
    def _run_observer(s, fno, name):
        fr = s.frames[fno]
        if name == "stress":
            for cid in list(fr.cells):
                fr.cells[cid].pressure = 0.5
            return fsutil.call(fr.calculate_stress_tensor, 3, 1.0)
        if name == "tensions":
            return fsutil.call(fr.get_tensions, with_border=True)
        if name == "pressure_matrix":
            return fsutil.call(s.build_pressure_matrix, when=fno)
        return fsutil.call(s.build_force_matrix, when=fno)

    @staticmethod
    def _observe(frame, inv):
        """physical observation; every local that refers to a Cell dies with this frame"""
        out = {"stored": {}, "fresh": {}, "share": {}, "area": 0.0}
        cyc = {cid: {vv.id for vv in cc.vertices} for cid, cc in frame.cells.items()}
        for cid in list(frame.cells):
            out["stored"][inv[cid]] = sorted(inv.get(x, "gone:%s" % x) for x in getattr(frame.cells[cid], "neighbors", []))
            with fsutil.quiet():
                out["fresh"][inv[cid]] = sorted(inv.get(x, "gone:%s" % x) for x in frame.cells[cid].calculate_neighbors())
                out["area"] += abs(float(frame.cells[cid].get_area()))
            out["share"][inv[cid]] = sorted(inv[o] for o in cyc if o != cid and cyc[o] & cyc[cid])
        return out

    def evaluate(self, d):
        import forsys as fs
        import gc
        cm = T.CMap([T.mob(0.04 + 0.02j)]) if self.k else T.CMap()
        fno = d["frame"] or 0
        with fsutil.quiet():
            if d["frame"] is None:
                v, e, c, info = T.realise(self.at, k=self.k, cmap=cm)
                s = fs.ForSys({0: T.frame_of(v, e, c)})
            else:
                frames = {}
                for t in range(2):
                    v, e, c, info = T.realise(self.at, k=self.k, cmap=cm)
                    frames[t] = T.frame_of(v, e, c, fid=t, time=float(t))
                s = fs.ForSys(frames, cm=False)
                del frames
        cellid = dict(info["cellid"])
        inv = {fid: cid for cid, fid in cellid.items()}
        del v, e, c, info
        viol, tags = [], []
        obs = None
        if d["frame"] is not None:
            tags.append("two_frames_at_%d" % fno)
        gone = []
        for n, cid in enumerate(d["removed"]):
            if isinstance(cid, list):
                with fsutil.quiet():
                    _, ex = self._run_observer(s, fno, cid[1])
                tags.append("observer:" + cid[1])
                if ex is not None:
                    # what the analysis call itself does is another property's business; only its side effects matter here
                    tags.append("observer_raised")
                    ex = None
            else:
                with fsutil.quiet():
                    _, ex = fsutil.call(s.remove_cell, fno, cellid[cid])
                if ex is not None:
                    viol.append({"what": "remove_cell raised", "detail": {"removed": d["removed"][:n + 1], "exc": fsutil.exc_str(ex)}})
                    ex = None
                    break
                gone.append(cid)
                tags.append("removed_%d" % len(gone))
            if d["frame"] is not None:
                other = self._observe(s.frames[1 - fno], inv)
                if sorted(other["share"], key=int) != sorted(self.at["C"], key=int) or any(other["stored"][x] != other["share"][x] for x in other["share"]):
                    viol.append({"what": "remove_cell at one frame changed the cells (or left stale neighbours) of another frame",
                                 "detail": {"asked_frame": fno, "other_frame_cells": len(other["share"]), "expected": len(self.at["C"])}})
                    break
            obs = self._observe(s.frames[fno], inv)
            remaining = sorted(set(self.at["C"]) - set(gone), key=int)
            if sorted(obs["share"], key=int) != remaining:
                viol.append({"what": "after remove_cell the frame does not hold exactly the remaining cells", "detail": {"got": sorted(obs["share"], key=int), "exp": remaining}})
                break
            for which in ("stored", "fresh"):
                bad = [x for x in remaining if obs[which][x] != obs["share"][x]]
                if bad:
                    viol.append({"what": "after %s the %s neighbours of a cell are not the other cells sharing a vertex with it" % ("remove_cell" if not isinstance(cid, list) else "the read-only call '%s'" % cid[1], "stored (Frame-populated)" if which == "stored" else "recomputed"),
                                 "detail": {"removed": d["removed"][:n + 1], "cell": bad[0], "got": obs[which][bad[0]], "exp": obs["share"][bad[0]]}})
                    break
            if viol:
                break
            # differential: the same sub-tissue built directly
            sub = T.sub_tissue(self.at, remaining)
            jpos, ipts = T.geometry(sub, self.k, cm)
            adj = T.cell_adjacency(sub)
            oa = outline_area(sub, jpos, ipts)
            if oa is not None:
                tags.append("subtissue_holefree")
                if abs(obs["area"] - oa) > 1e-9 * max(1.0, oa):
                    viol.append({"what": "after remove_cell the absolute cell areas do not add up to the area enclosed by the outline of the remaining tissue",
                                 "detail": {"sum": obs["area"], "outline": oa, "removed": d["removed"][:n + 1]}})
                    break
            else:
                tags.append("subtissue_with_hole_or_pinch")
        key = "%s|%s|%s" % (self.base, d["frame"], ",".join(map(str, d["removed"])))
        return {"key": key, "viol": viol, "tags": sorted(set(tags)), "cls": "%s/%d/%s" % (d["frame"], len(d["removed"]), fsutil.state_hash(obs["share"] if obs else None)[:8]),
                "nontrivial": bool(d["removed"]), "obs": None}

    def check_edge(self, d, a, d2, r, r2):
        return [], []


def build(tier, seed):
    nmax = 5 if tier == "quick" else 6
    systems = []
    for n in range(3, nmax + 1):
        blocks = [{"n": n, "block": b, "full_tr": (n <= 4 or tier == "thorough")} for b in range(NBLOCKS)]
        systems.append(ListSystem("grid-polygons-%d" % n, blocks, eval_block))
    stars = [{"n": n, "kind": k} for n in list(range(3, 81)) for k in ("regular", "star") if not (k == "star" and (n % 2 or n < 6))]
    systems.append(ListSystem("regular-and-star-polygons", stars, eval_star))
    systems.append(CellHistories(3 if tier == "quick" else 5))
    if tier == "quick":
        systems.append(SubTissueCells("v5x4", [0, 2], ["none", "alt"]))
        systems.append(SubTissueCells("v4x4p%d" % (seed + 1), [1], ["all"]))
        systems.append(SubTissueCells("square3x3", [0, 1], ["none", "alt"]))      # 4-fold junctions: cells that share a vertex but no edge
        systems.append(RemovalHistories("v4x4", 1, 2))
        systems.append(RemovalHistories("square3x3", 0, 2))
    else:
        systems.append(SubTissueCells("v5x5", [0, 2], ["none", "alt", "all"]))
        systems.append(SubTissueCells("square3x3", [0, 1], ["none", "alt"]))
        systems.append(SubTissueCells("v5x4p%d" % (seed + 1), [0, 3], ["none", "alt"]))
        systems.append(RemovalHistories("v4x4", 1, 3))
        systems.append(RemovalHistories("v5x4", 2, 2))
        systems.append(RemovalHistories("square3x3", 0, 4))
    return systems
