"""C06 — inference is invariant under similarity transforms and changes of units.

States = a tissue in a pose (chain of similarity transforms applied to ALL vertex coordinates); transitions =
one more group element (translation, rotation, reflection, scaling). On every transition the static tension of
every physical interface and the pressure of every physical cell must be unchanged and the coefficient pairs
must rotate / reflect with the tissue. Dynamic mode: multiplying all time stamps, or all lengths, by a common
factor leaves the tensions unchanged with adimensional velocities (up to the 3-decimal rounding).
"""
import cmath
import math

import numpy as np

from fsmc import bases, tissue as T, fsutil, solvecase as SC, pairs
from fsmc.ref import nnls as RN
from fsmc.explorer import ListSystem

PID = "C06"
RULE = ("states = (tissue, chain of similarity transforms up to the depth bound); transitions = one group element; "
        "non-trivial = pose differs from the original; classes = (tissue, chain signature)")
BOUND = {"quick": "3 tissues (equilibrium, deformed, seeded) x both fits; 13 translations, 10 rotations (incl. tangent-aligned), 3 reflections, 6 scalings; chains to depth 2; dynamic: 6 time factors x 6 length factors on a two-frame series and on a three-frame series whose middle stamp is exactly 0; 7 translations applied IN PLACE to solved objects (as cm=True does) x 3 tissues x both fits",
         "thorough": "6 tissues, 24 rotations, chains to depth 3; 13 in-place translations x 6 tissues x both fits"}
ASSUMPTIONS = ["tensions / pressures are only compared where the non-negative optimum is unique in both poses",
               "coefficient tolerance: 1e-7 (taubinSVD); dlite: 1e-7 x (1 + 30 x translation in tissue sizes) on exact arcs, 1e-3 on deformed interfaces (leastsq termination); dlite beyond 1e2 tissue sizes is finding F8; tensions: 1e-9 x conditioning + 10 x coefficient deviation x conditioning",
               "dynamic tolerance: 3 x (5e-4 sqrt(rows)) / sigma_min of the augmented system (3-decimal rounding of the velocity term)"]
REQUIRED_TAGS = {"all": ["translate", "rotate", "reflect", "scale", "compared", "pressures_compared", "dynamic_time", "dynamic_length", "noisy", "far_translation", "inplace_translation", "stamps_through_zero"]}

FITS = ["dlite", "taubinSVD"]
TRS = [(1, 0), (0, 1), (-3, 2), (0.01, -0.02), (1e2, 0), (-39.8, 18.8), (1e3, -1e3), (10, -10), (0, -1e2), (70, 70), (1e4, 0), (0, 1e4), (-7e3, 7e3)]


def group_elements(nrot, at, seed):
    th0 = 0.211 + 0.37 * seed
    els = []
    for v in [(1, 0), (0, 1), (-3, 2), (10, -10), (1e2, 0), (0, -1e2), (70, 70), (1e3, 0), (0, 1e3), (-1e3, 1e3), (1e4, 0), (0, 1e4), (-7e3, 7e3)]:
        els.append(["tr", v[0], v[1]])
    for i in range(1, nrot):
        els.append(["rot", th0 + 2 * math.pi * i / nrot])
    from checks import c02
    for a in c02.aligned_angles(at, ["id"], m=1)[:5]:
        els.append(["rot", a])
    els += [["refx"], ["refy"], ["refd"]]
    for s in (1e-3, 1e-2, 0.5, 3.0, 1e2, 1e3):
        els.append(["sc", s])
    return els


def chain_cmap(base_cm, chain, extent):
    ops = list(base_cm.ops)
    for g in chain:
        if g[0] == "tr":
            ops.append(T.aff(1.0, complex(g[1], g[2]) * extent))
        elif g[0] == "rot":
            ops.append(T.rot(g[1]))
        elif g[0] == "refx":
            ops.append(T.CONJ)
        elif g[0] == "refy":
            ops += [T.CONJ, T.aff(-1.0, 0.0)]
        elif g[0] == "refd":
            ops += [T.CONJ, T.aff(1j, 0.0)]
        elif g[0] == "sc":
            ops.append(T.aff(g[1], 0.0))
    return T.CMap(ops)


def push_pair(g, z):
    """image of a direction under one group element"""
    if g[0] in ("tr", "sc"):
        return z
    if g[0] == "rot":
        return z * cmath.exp(1j * g[1])
    if g[0] == "refx":
        return z.conjugate()
    if g[0] == "refy":
        return -z.conjugate()
    if g[0] == "refd":
        return 1j * z.conjugate()


def observe(at, cm, post, fit):
    r = SC.solve_static(at, k=3, cmap=cm, fit=fit, post=post, allow_negatives=False)
    o = {"exc": None}
    if r.exc is not None:
        o["exc"] = fsutil.exc_str(r.exc)
        return o
    ps = pairs.pair_status(r.frame, r.fm, r.info, r.cols, fit)
    under = set()
    if fit == "dlite":
        import forsys.virtual_edges as ve
        for n, ii in enumerate(r.cols):
            be = r.frame.big_edges[r.frame.big_edges_list.index(list(r.fm.big_edges_to_use[n]))]
            pts = [complex(x.x, x.y) for x in be.vertices]
            if len(pts) >= 3 and not be.is_straight():
                # F22 is recorded for FLAT arcs (turning below 0.1 rad): only those are candidates for that attribution
                tot = 0.0
                with np.errstate(all="ignore"):
                    for a_, b_, c_ in zip(pts[:-2], pts[1:-1], pts[2:]):
                        tot += cmath.phase((c_ - b_) / (b_ - a_))
                if abs(tot) * (len(pts) - 1) / (len(pts) - 2) >= 0.1:
                    continue
                with fsutil.quiet():
                    xc, yc = ve.calculate_circle_center(be.vertices, method="dlite")
                if pairs.dlite_underconverged_generic(pts, complex(xc, yc)):
                    under.add(str(ii))
    o["underconverged"] = sorted(under)
    o["pairs"] = {"%s|%s" % k: [v["pair"].real, v["pair"].imag, v["exp"].real, v["exp"].imag, v["status"]] for k, v in ps.items()}
    o["tension"] = {str(ii): float(x) for ii, x in zip(r.cols, r.forces)}
    jid_of = {vid: j for j, vid in r.info["jvid"].items()}
    rows = sorted((jid_of.get(v, "v%s" % v), row) for v, row in r.fm.map_vid_to_row.items())
    order = sorted(range(len(r.cols)), key=lambda n: r.cols[n])
    o["cols"] = [r.cols[n] for n in order]
    o["Mphys"] = [[float(r.M[row + c, n]) for n in order] for _, row in rows for c in (0, 1)]
    with fsutil.ref_math():
        A, b = RN.augment(r.M)
        zr = RN.lawson_hanson(A, b)
        cr = RN.kkt(A, b, zr, 1e-8 * max(1, len(zr)))
        o["unique"] = bool(cr["ok"] and RN.unique_minimiser(A, zr, cr["g"], 1e-7))
        sv = np.linalg.svd(A, compute_uv=False)
        o["cond"] = float(sv.max() / max(sv.min(), 1e-300))
    s = r.forsys
    _, ex = fsutil.call(s.build_pressure_matrix, when=0)
    if ex is None:
        _, ex = fsutil.call(s.solve_pressure, when=0, method="lagrange_pressure")
    if ex is None:
        inv = {fid: cid for cid, fid in r.info["cellid"].items()}
        o["pressure"] = {inv[cid]: float(c.pressure) for cid, c in r.frame.cells.items()}
    else:
        o["pexc"] = fsutil.exc_str(ex)
    return o


def observe_limited(at, cm, post, limit):
    """static inference with an angle limit: which physical interfaces are left out, and how far the decisive opening angles
    (computed through the library's own public tangent call, as the limit test does) are from the limit"""
    import itertools
    r = SC.solve_static(at, k=3, cmap=cm, fit="taubinSVD", post=post, allow_negatives=False, angle_limit=limit)
    o = {"exc": None, "limit": limit}
    if r.exc is not None:
        o["exc"] = fsutil.exc_str(r.exc)
        return o
    mb = T.match_big_edges(r.frame, r.info, at)
    phys = {}
    for be in r.frame.internal_big_edges:
        path = mb.get(be.big_edge_id)
        phys[be.big_edge_id] = path[0][0] if path and len(path) == 1 else None
    used = {tuple(x) for x in r.fm.big_edges_to_use}
    o["excluded"] = sorted(str(phys[be.big_edge_id]) for be in r.frame.internal_big_edges if tuple(be.get_vertices_ids()) not in used)
    margin = math.inf
    ends = {be.get_vertices_ids()[0] for be in r.frame.internal_big_edges} | {be.get_vertices_ids()[-1] for be in r.frame.internal_big_edges}
    import forsys.virtual_edges as ve
    f1 = 0
    with fsutil.quiet(), np.errstate(all="ignore"):
        for vid in ends:
            vx = r.frame.vertices[vid]
            vers = [r.frame.big_edges[b].get_versor_from_vertex(vid, fit_method="taubinSVD") for b in vx.own_big_edges]
            angs = [float(np.arccos(np.clip(np.dot(a, b), -1, 1))) for a, b in itertools.combinations(vers, 2)]
            if angs:
                margin = min(margin, abs(max(angs) - limit))
            # F1 attribution: the limit test uses the tangents of ALL interfaces at the junction, external ones included; a tangent
            # that equals the per-component sign-forced one instead of the circle's is a mirrored tangent (finding F1)
            for b, w in zip(vx.own_big_edges, vers):
                be = r.frame.big_edges[b]
                pts = [complex(x.x, x.y) for x in be.vertices]
                if be.vertices[0].id != vid:
                    pts = pts[::-1]
                if len(pts) < 3 or be.is_straight():
                    continue
                xc, yc = ve.calculate_circle_center(be.vertices, method="taubinSVD")
                exp = 1j * (pts[0] - complex(xc, yc))
                exp = exp / abs(exp)
                chord = pts[1] - pts[0]
                if exp.real * chord.real + exp.imag * chord.imag < 0:
                    exp = -exp
                got = complex(w[0], w[1])
                pred = complex(abs(exp.real) * (1.0 if chord.real == 0 else math.copysign(1.0, chord.real)), abs(exp.imag) * (1.0 if chord.imag == 0 else math.copysign(1.0, chord.imag)))
                if abs(got - exp) > 1e-9 and abs(got - pred) <= 1e-9:
                    f1 += 1
    o["margin"] = margin
    o["f1_versors"] = f1
    o["tension"] = {str(ii): float(x) for ii, x in zip(r.cols, r.forces)} if None not in r.cols else None
    return o


class Poses:
    chunk = 2

    def __init__(self, tissues, depth, nrot, seed):
        self.name = "poses"
        self.tissues = tissues          # [base, mobspec, noise]
        self.bound = depth
        self.nrot, self.seed = nrot, seed
        self._els = {}

    def els(self, ti):
        if ti not in self._els:
            self._els[ti] = group_elements(self.nrot, bases.get(self.tissues[ti][0]), self.seed)
        return self._els[ti]

    def initial(self):
        return [{"t": ti, "chain": []} for ti in range(len(self.tissues))]

    def limit_of(self, ti):
        """an angle limit (a pure number, the same in every pose) that excludes some interfaces of tissue ti"""
        if not hasattr(self, "_limits"):
            self._limits = {}
        if ti not in self._limits:
            from checks import c10
            base, mobspec, noise = self.tissues[ti]
            at = bases.get(base)
            self._limits[ti] = c10.angle_limit_for(at, SC.make_cmap(mobspec, 0.0, (0, 0), 1.0, SC.extent_of(at)))
        return self._limits[ti]

    def actions(self, d):
        els = self.els(d["t"])
        if not d["chain"]:
            return [[i] for i in range(len(els))]
        # second and later elements: one representative of every kind, so that every pair of kinds is composed
        reps = {}
        for i, g in enumerate(els):
            reps.setdefault(g[0], []).append(i)
        out = []
        for kind, idx in reps.items():
            out += idx[:2] if kind in ("tr", "rot", "sc") else idx[:1]
        return [[i] for i in out]

    def step(self, d, a):
        return {"t": d["t"], "chain": d["chain"] + [a[0]]}

    def evaluate(self, d):
        base, mobspec, noise = self.tissues[d["t"]]
        at = bases.get(base)
        ext = SC.extent_of(at)
        els = self.els(d["t"])
        chain = [els[i] for i in d["chain"]]
        cm = chain_cmap(SC.make_cmap(mobspec, 0.0, (0, 0), 1.0, ext), chain, ext)
        post = None
        if noise:
            # the deformation is applied in the ORIGINAL pose and then carried along by the similarity chain
            inner = SC.noise_post(noise, 2)
            base_cm = SC.make_cmap(mobspec, 0.0, (0, 0), 1.0, ext)
            tail = T.CMap(cm.ops[len(base_cm.ops):])
            cm = base_cm

            def post(jpos, ipts, inner=inner, tail=tail):
                jp, ip = inner(jpos, ipts)
                return {j: tail(z) for j, z in jp.items()}, [[tail(z) for z in pts] for pts in ip]
        obs = {fit: observe(at, cm, post, fit) for fit in FITS}
        obs["limited"] = observe_limited(at, cm, post, self.limit_of(d["t"]))
        tags = sorted({g[0] for g in chain})
        tags = [{"tr": "translate", "rot": "rotate", "refx": "reflect", "refy": "reflect", "refd": "reflect", "sc": "scale"}[t] for t in tags]
        if noise:
            tags.append("noisy")
        if Poses.offset_in_sizes(chain) >= 1e3:
            tags.append("far_translation")
        cls = "%d|%s" % (d["t"], ",".join("%s" % g[0] for g in chain))
        return {"viol": [], "tags": sorted(set(tags)), "cls": cls + "|" + fsutil.state_hash(d["chain"])[:6], "obs": obs, "nontrivial": bool(chain)}

    @staticmethod
    def offset_in_sizes(chain):
        """distance of the tissue from the origin, in units of its CURRENT size, after the chain (scalings after a translation
        keep the ratio, scalings before it change it)"""
        off, size = 0.0, 1.0
        for x in chain:
            if x[0] == "tr":
                off += max(abs(x[1]), abs(x[2]))          # translations are given in units of the original extent
            elif x[0] == "sc":
                off *= x[1]
                size *= x[1]
        return off / size if size else 0.0

    def check_edge(self, d, a, d2, r, r2):
        viol, known = [], []
        g = self.els(d["t"])[a[0]]
        chain2 = [self.els(d["t"])[i] for i in d2["chain"]]
        # the tissue's offset from the origin matters relative to its current size: a translation by one original extent
        # after a scaling by 1e-3 is a translation by 1000 current sizes
        sizes = 1.0
        worst_off = 0.0
        for n in range(1, len(chain2) + 1):
            sz = 1.0
            for x in chain2[:n]:
                if x[0] == "sc":
                    sz *= x[1]
            off = 0.0
            cur = 1.0
            for x in chain2[:n]:
                if x[0] == "sc":
                    cur *= x[1]
                    off *= x[1]
                elif x[0] == "tr":
                    off += max(abs(x[1]), abs(x[2]))
            worst_off = max(worst_off, off / cur)
        far = worst_off >= 1e2
        l1, l2 = r["obs"].get("limited"), r2["obs"].get("limited")
        if l1 and l2:
            if (l1["exc"] is None) != (l2["exc"] is None):
                viol.append({"what": "[%s] inference with an angle limit raises in one pose only" % g[0], "detail": [l1["exc"], l2["exc"]]})
            elif l1["exc"] is None and l1["excluded"] != l2["excluded"]:
                f1_any = any(v_[4] == "f1" for o_ in (r["obs"]["taubinSVD"], r2["obs"]["taubinSVD"]) if not o_["exc"] for v_ in o_["pairs"].values())
                if min(l1["margin"], l2["margin"]) < 1e-3:
                    pass          # an opening angle sits on the limit: which side the fit's rounding puts it is not promised
                elif f1_any or l1.get("f1_versors") or l2.get("f1_versors"):
                    known.append({"id": "F1", "fit": "taubinSVD", "element": g, "what": "excluded set changes through mirrored tangents"})
                else:
                    viol.append({"what": "[%s] the interfaces left out by an angle limit differ between the two poses" % g[0],
                                 "detail": {"limit": l1["limit"], "first": l1["excluded"][:12], "second": l2["excluded"][:12], "margins": [l1["margin"], l2["margin"]]}})
        res = {}
        for fit in FITS:
            o1, o2 = r["obs"][fit], r2["obs"][fit]
            res[fit] = self.compare(g, o1, o2, fit, bool(self.tissues[d["t"]][2]), worst_off)
        for fit in FITS:
            v, f1 = res[fit]
            if f1:
                known.append({"id": "F1", "fit": fit, "element": g})
            if any(x.get("F22") for x in v):
                known.append({"id": "F22", "fit": fit, "element": g, "interfaces": [x for x in v if x.get("F22")][0]["detail"]})
                v = [x for x in v if not x.get("F22")]
            if v and v[0].get("F21"):
                known.append({"id": "F21", "fit": fit, "element": g, "detail": v[0]["detail"]})
                continue
            if v:
                taub_clean = not [x for x in res["taubinSVD"][0] if not x.get("F21")]
                # F8 as recorded: coefficient pairs change "by up to a few percent". A deviation an order of magnitude above that
                # is a different failure and is reported
                dev = (v[0].get("detail") or {}).get("max_dev") if isinstance(v[0].get("detail"), dict) else None
                if fit == "dlite" and far and taub_clean and (dev is None or dev <= 0.05 or bool(self.tissues[d["t"]][2])):
                    known.append({"id": "F8", "element": g, "chain": d2["chain"], "what": v[0]["what"], "detail": v[0].get("detail")})
                else:
                    for x in v:
                        x["what"] = "[%s, %s] %s" % (fit, g[0], x["what"])
                    viol += v
        r2.setdefault("tags", [])
        return viol, known

    @staticmethod
    def multiplier_frame_dependence(g, o1, o2, tol):
        """F21: the all-ones multiplier column sits on the x- and y-rows alike, i.e. it is the fixed vector (1,1) in the
        coordinate frame. In the rotated pose the system is g(M) x + lambda (1,1) = 0, which in the original pose reads
        M x + lambda g^-1(1,1) = 0. If the tensions reported in the second pose are the certified optimum of THAT system
        (built from the first pose's matrix), the difference is explained by this mechanism."""
        with fsutil.ref_math():
            M1 = np.array(o1["Mphys"], float)
            if g[0] == "rot":
                u = (1 + 1j) * cmath.exp(-1j * g[1])
            else:
                u = push_pair(g, 1 + 1j)
            A, b = RN.augment(M1)
            A[:-1:2, -1] = u.real
            A[1:-1:2, -1] = u.imag
            x2 = np.array([o2["tension"][str(ii)] for ii in o1["cols"]], float)
            zr = RN.lawson_hanson(A, b)
            # the multiplier may have either sign in the inversion path; try the mirrored column too
            A2 = A.copy()
            A2[:-1, -1] *= -1
            zr2 = RN.lawson_hanson(A2, b)
            d = min(np.abs(zr[:-1] - x2).max(), np.abs(zr2[:-1] - x2).max())
            res1 = np.linalg.norm(np.array(M1) @ np.array([o1["tension"][str(ii)] for ii in o1["cols"]], float))
            return bool(d <= 1e-6 + 10 * tol and res1 > 1e-6)

    @staticmethod
    def compare(g, o1, o2, fit="taubinSVD", noisy=False, maxtrans=0.0):
        viol = []
        f1 = False
        if o1["exc"] or o2["exc"]:
            if bool(o1["exc"]) != bool(o2["exc"]):
                viol.append({"what": "inference raises in one pose only", "detail": [o1["exc"], o2["exc"]]})
            return viol, f1
        if set(o1["pairs"]) != set(o2["pairs"]):
            viol.append({"what": "set of equations / unknowns changed with the pose"})
            return viol, f1
        worst = 0.0
        f22 = False
        under = set(o1.get("underconverged", [])) | set(o2.get("underconverged", []))
        for k, p1 in o1["pairs"].items():
            p2 = o2["pairs"][k]
            if k.split("|")[1] in under and abs(push_pair(g, complex(p1[2], p1[3])) - complex(p2[2], p2[3])) <= 0.06:
                # F22: leastsq stopped short of the optimum of its own objective for this (flat) interface in one of the poses;
                # as recorded the tangent is then off by up to 0.05 rad - a larger deviation is judged like any other
                f22 = True
                continue
            if p1[4] == "f1" or p2[4] == "f1":
                f1 = True
                # compare the dot-oriented tangents from the library's own centres instead
                a, b = complex(p1[2], p1[3]), complex(p2[2], p2[3])
            else:
                a, b = complex(p1[0], p1[1]), complex(p2[0], p2[1])
            if p1[4] == "other" or p2[4] == "other":
                viol.append({"what": "coefficient pair is neither the oriented tangent of the fitted circle nor its sign-forced image", "detail": {"pair": k}})
                continue
            worst = max(worst, abs(push_pair(g, a) - b))
        # taubinSVD is algebraic (exact to rounding). dlite = scipy leastsq on raw coordinates with relative termination
        # tolerances: on exact arcs its centre error grows with the distance of the tissue from the origin; on deformed
        # interfaces (no exact arcs) it stops in a flat valley
        tolc = 1e-7
        if fit == "dlite":
            tolc = 1e-3 if noisy else 1e-7 * (1 + 30 * maxtrans)
        if worst > tolc:
            viol.append({"what": "coefficient pairs do not rotate / reflect with the tissue", "detail": {"max_dev": worst, "tol": tolc}})
        if f22:
            viol.append({"F22": True, "what": "dlite under-convergence", "detail": sorted(under)[:5]})
        if f1 or f22:
            return viol, f1
        if o1["unique"] and o2["unique"]:
            tol = 1e-9 * max(1.0, min(max(o1["cond"], o2["cond"]), 1e6)) + 10 * worst * max(o1["cond"], 1.0)
            dt = max(abs(o1["tension"][k] - o2["tension"][k]) for k in o1["tension"])
            if dt > tol:
                if g[0] in ("rot", "refx", "refy", "refd") and Poses.multiplier_frame_dependence(g, o1, o2, tol):
                    return [{"F21": True, "what": "static tension changed under a rotation/reflection of a tissue that is not in force balance", "detail": {"max_diff": dt}}], f1
                viol.append({"what": "static tension of a physical interface changed with the pose", "detail": {"max_diff": dt, "tol": tol}})
            if "pressure" in o1 and "pressure" in o2:
                scale = max(1.0, max(abs(v) for v in o1["pressure"].values()))
                dp = max(abs(o1["pressure"][k] - o2["pressure"][k]) for k in o1["pressure"])
                if dp > 100 * tol * scale:
                    viol.append({"what": "pressure of a physical cell changed with the pose", "detail": {"max_diff": dp, "tol": 100 * tol * scale}})
            elif ("pexc" in o1) != ("pexc" in o2):
                viol.append({"what": "pressure step raises in one pose only"})
        return viol, f1


class _PosesCounting(Poses):
    """adds comparison buckets (compared / pressures_compared) by re-doing the comparison with the original pose in the worker"""

    def evaluate(self, d):
        r = super().evaluate(d)
        o = r["obs"]["taubinSVD"]
        if d["chain"] and not o["exc"] and o["unique"]:
            r["tags"] = r["tags"] + ["compared"] + (["pressures_compared"] if "pressure" in o else [])
        return r


class Units:
    """dynamic inference under changes of the time unit and of the length unit (adimensional velocities)"""
    chunk = 2
    bound = 2

    def __init__(self, tissues):
        self.name = "units"
        self.tissues = tissues
        self.factors = [1.0, 1e-3, 1e-2, 0.3, 7.0, 1e2, 1e3]

    def initial(self):
        # st = 0: two frames stamped (2, 2.5) x factor, inferred at the first; st = 1: three frames stamped (-2, 0, 2) x factor (time
        # measured from an event: the stamp 0 falls on the middle frame in every unit), inferred at the middle one
        return [{"t": ti, "tf": 0, "lf": 0, "st": st} for ti in range(len(self.tissues)) for st in (0, 1)]

    def actions(self, d):
        acts = []
        if d["tf"] == 0:
            acts += [["time", i] for i in range(1, len(self.factors))]
        if d["lf"] == 0:
            acts += [["len", i] for i in range(1, len(self.factors))]
        return acts

    def step(self, d, a):
        d2 = dict(d)
        d2["tf" if a[0] == "time" else "lf"] = a[1]
        return d2

    def evaluate(self, d):
        base, mobspec, noise = self.tissues[d["t"]]
        at = bases.get(base)
        ext = SC.extent_of(at)
        tf, lf = self.factors[d["tf"]], self.factors[d["lf"]]
        cm = SC.make_cmap(mobspec, 0.3, (0, 0), 1.0, ext)
        n0 = SC.noise_post(noise, 1) if noise else (lambda j, i: (j, i))
        mv = SC.noise_post(0.015, 3)

        def scale(jp, ip):
            return {j: z * lf for j, z in jp.items()}, [[z * lf for z in pts] for pts in ip]
        # the same physical motion in every unit system: deform and move in the original units, then change the unit of length
        p0 = lambda j, i: scale(*n0(j, i))
        p1 = lambda j, i: scale(*mv(*n0(j, i)))
        which = 0
        if d.get("st"):
            mv2 = SC.noise_post(0.015, 2)
            p2 = lambda j, i: scale(*mv2(*mv(*n0(j, i))))
            s, infos, ex = SC.build_series([{"at": at, "k": 3, "cmap": cm, "post": p0, "time": -2.0 * tf},
                                            {"at": at, "k": 3, "cmap": cm, "post": p1, "time": 0.0},
                                            {"at": at, "k": 3, "cmap": cm, "post": p2, "time": 2.0 * tf}])
            which = 1
        else:
            s, infos, ex = SC.build_series([{"at": at, "k": 3, "cmap": cm, "post": p0, "time": 2.0 * tf},
                                            {"at": at, "k": 3, "cmap": cm, "post": p1, "time": 2.5 * tf}])
        tags = ["stamps_through_zero"] if d.get("st") else []
        if d["tf"]:
            tags.append("dynamic_time")
        if d["lf"]:
            tags.append("dynamic_length")
        if ex is not None:
            return {"viol": [{"what": "series construction raised", "detail": fsutil.exc_str(ex)}], "tags": tags, "cls": "exc"}
        r = SC.solve_frame(s, which, at, infos[which], fit="taubinSVD", allow_negatives=False, solve_kwargs={"b_matrix": "velocity", "adimensional_velocity": True})
        if r.exc is not None:
            return {"viol": [{"what": "dynamic inference raised", "detail": fsutil.exc_str(r.exc)}], "tags": tags, "cls": "exc"}
        with fsutil.ref_math():
            A, b = RN.augment(r.M)
            sv = np.linalg.svd(A, compute_uv=False)
            smin = float(sv.min())
            full = A.shape[0] >= A.shape[1] and smin > 1e-9 * sv.max()
            bnd = 3 * (5e-4 * math.sqrt(A.shape[0])) / max(smin, 1e-12)
        obs = {"tension": {str(ii): float(x) for ii, x in zip(r.cols, r.forces)}, "full": bool(full), "bound": bnd,
               "active": sum(1 for x in r.forces if x <= 1e-9)}
        return {"viol": [], "tags": tags, "cls": "%d/%d/%d/%d" % (d["t"], d["tf"], d["lf"], d.get("st", 0)), "obs": obs, "nontrivial": bool(d["tf"] or d["lf"])}

    def check_edge(self, d, a, d2, r, r2):
        o1, o2 = r.get("obs"), r2.get("obs")
        if not o1 or not o2 or not (o1["full"] and o2["full"]):
            return [], []
        dt = max(abs(o1["tension"][k] - o2["tension"][k]) for k in o1["tension"])
        tol = o1["bound"] + o2["bound"]
        if dt > tol:
            return [{"what": "dynamic tensions changed when all %s were multiplied by a common factor (adimensional velocities)" % ("time stamps" if a[0] == "time" else "lengths"),
                     "detail": {"max_diff": dt, "tol": tol, "factor": self.factors[a[1]]}}], []
        return [], []


# ---------------------------------------------------------------- translations applied to LIVE objects
def physical(r):
    jid_of = {vid: j for j, vid in r.info["jvid"].items()}
    rows = sorted((jid_of.get(v, "v%s" % v), row) for v, row in r.fm.map_vid_to_row.items())
    order = sorted(range(len(r.cols)), key=lambda n: (r.cols[n] is None, r.cols[n]))
    return ([r.cols[n] for n in order], [j for j, _ in rows],
            np.array([[float(r.M[row + c, n]) for n in order] for _, row in rows for c in (0, 1)], float).reshape(2 * len(rows), len(order)),
            {str(ii): float(x) for ii, x in zip(r.cols, r.forces)})


def eval_inplace(d):
    """solve, translate every vertex of the SAME frame (what ForSys(cm=True) does to the frames it is given), build and solve
    again on the same objects; the result must equal that of objects freshly built from the translated coordinates"""
    base, mobspec, noise = d["tissue"]
    at = bases.get(base)
    ext = SC.extent_of(at)
    cm = SC.make_cmap(mobspec, 0.0, (0, 0), 1.0, ext)
    inner = SC.noise_post(noise, 2) if noise else None
    dx, dy = float(d["tr"][0] * ext), float(d["tr"][1] * ext)
    fit = d["fit"]
    tags = ["inplace_translation"] + (["noisy"] if noise else [])

    def moved(jpos, ipts):
        if inner is not None:
            jpos, ipts = inner(jpos, ipts)
        mv = lambda z: complex(float(z.real) + dx, float(z.imag) + dy)
        return {j: mv(z) for j, z in jpos.items()}, [[mv(z) for z in pts] for pts in ipts]
    live = SC.solve_static(at, k=3, cmap=cm, fit=fit, post=inner, allow_negatives=False)
    fresh = SC.solve_static(at, k=3, cmap=cm, fit=fit, post=moved, allow_negatives=False)
    cls = "%s/%s/%s" % (base, fit, d["tr"])
    if live.exc is not None:
        return {"viol": [], "tags": tags + ["first_solve_raised"], "cls": cls + "/exc"}
    for v in live.frame.vertices.values():
        v.x += dx
        v.y += dy
    s = live.forsys
    _, ex = fsutil.call(s.build_force_matrix, when=0, circle_fit_method=fit, angle_limit=np.inf, metadata={})
    if ex is None:
        _, ex = fsutil.call(s.solve_stress, when=0, allow_negatives=False)
    if (ex is None) != (fresh.exc is None):
        return {"viol": [{"what": "after translating the vertices of an already solved frame, inference raises although fresh objects at the new position do not (or vice versa)",
                          "detail": {"live": fsutil.exc_str(ex) if ex else None, "fresh": fsutil.exc_str(fresh.exc) if fresh.exc else None}}], "tags": tags, "cls": cls}
    if ex is not None:
        return {"viol": [], "tags": tags + ["both_raise"], "cls": cls + "/exc"}
    live.fm = s.force_matrices[0]
    live.M = np.array(live.fm.matrix, float)
    live.forces = [float(s.forces[0][i]) for i in range(len(s.forces[0]))]
    live.cols = SC.column_interfaces(live.frame, live.fm, live.info, at)
    c1, j1, M1, t1 = physical(live)
    c2, j2, M2, t2 = physical(fresh)
    viol = []
    if c1 != c2 or j1 != j2:
        viol.append({"what": "after translating the vertices of an already solved frame the set of interfaces / equations differs from fresh objects at the new position"})
    else:
        dM = float(np.max(np.abs(M1 - M2))) if M1.size else 0.0
        dT = max([abs(t1[k] - t2[k]) for k in t1] or [0.0])
        tags.append("compared")
        if dM > 1e-9:
            viol.append({"what": "after translating the vertices of an already solved frame the assembled coefficients differ from those of fresh objects at the new position",
                         "detail": {"max_diff": dM, "translation": [dx, dy], "fit": fit}})
        elif dT > 1e-7 and dM == 0.0:
            viol.append({"what": "after translating the vertices of an already solved frame the tensions differ from those of fresh objects with identical equations",
                         "detail": {"max_diff": dT}})
        elif dT <= 1e-9:
            for r_ in (live, fresh):
                _, e1 = fsutil.call(r_.forsys.build_pressure_matrix, when=0)
                if e1 is None:
                    _, e1 = fsutil.call(r_.forsys.solve_pressure, when=0, method="lagrange_pressure")
                r_.pexc = e1
            if (live.pexc is None) != (fresh.pexc is None):
                viol.append({"what": "pressure step raises on the translated live objects only (or on the fresh ones only)"})
            elif live.pexc is None:
                tags.append("pressures_compared")
                inv = {fid: cid for cid, fid in live.info["cellid"].items()}
                p1 = {inv[c]: float(x.pressure) for c, x in live.frame.cells.items()}
                inv2 = {fid: cid for cid, fid in fresh.info["cellid"].items()}
                p2 = {inv2[c]: float(x.pressure) for c, x in fresh.frame.cells.items()}
                dp = max(abs(p1[k] - p2[k]) for k in p1)
                if dp > 1e-7 * max(1.0, max(abs(x) for x in p2.values())):
                    viol.append({"what": "after translating the vertices of an already solved frame the pressures differ from those of fresh objects at the new position", "detail": {"max_diff": dp}})
    return {"viol": viol, "tags": tags, "cls": cls, "nontrivial": True}


def build(tier, seed):
    M = ["m", 0.05, 0.02]
    if tier == "quick":
        ts = [["v5x5", M, 0.0], ["v5x5", M, 0.05], ["v6x5p%d" % (seed + 1), ["id"], 0.0]]
        inpl = [{"tissue": t, "tr": tr, "fit": f} for t in ts for tr in TRS[:7] for f in FITS]
        return [_PosesCounting(ts, 2, 6, seed), Units([["v5x5", M, 0.0], ["v5x5", M, 0.06]]), ListSystem("in-place-translations", inpl, eval_inplace)]
    ts = [["v5x5", M, 0.0], ["v5x5", M, 0.05], ["v6x5", ["mc", 0.12, 0.05], 0.0], ["v6x6", ["id"], 0.04], ["v6x5p%d" % (seed + 1), ["id"], 0.0], ["v7x6", M, 0.02]]
    inpl = [{"tissue": t, "tr": tr, "fit": f} for t in ts for tr in TRS for f in FITS]
    return [ListSystem("in-place-translations", inpl, eval_inplace), _PosesCounting(ts, 3, 24, seed), Units([["v5x5", M, 0.0], ["v5x5", M, 0.06], ["v6x5", M, 0.0], ["v6x6", ["id"], 0.05]])]
