"""C09 — every construction or editing path yields a consistent vertex-edge-cell mesh.

Initial meshes come from every parser (Surface Evolver dump written by the independent serialiser, WKT polygons,
Voronoi tessellation, direct construction of sub-tissues, shipped dumps and skeleton); operation histories
{generate_mesh(ne, replace_short_edges), Frame(...), hold a copy of the three dictionaries, release it, gc.collect()}
are explored breadth first; states are canonicalised by a hash of the whole mesh (ids, coordinates, cycles,
back-reference lists). The consistency predicate of the statement is evaluated in every state.
"""
import gc
import os
import tempfile

import numpy as np

from fsmc import bases, tissue as T, fsutil
from fsmc.ref import mesh as RM, sedump
from checks import c11

REPO = os.environ.get("FORSYS_REPO", "/repo")
PID = "C09"
RULE = ("states = meshes reachable from a parser output by histories over {generate_mesh x8, Frame, hold, release, gc, remove_cell x2}; de-duplicated on the full mesh snapshot; "
        "non-trivial = history contains an edit; classes = (source, vertices, edges, cells, history signature)")
BOUND = {"quick": "depth 3 from 17 initial meshes (WKT polygons with two nearly coincident corners, direct k=0/k=2, SE dump, WKT, tessellation, sub-tissue with hole, lens, rasterised skeletons: minimal, non-minimal, with reduce_amount, with a detached ring / pair of cells) + depth 2 from every connected sub-tissue of a 7-cell base (k=0 and k=2) + depth 1 from the skeleton raster with ONE staircase corner (an L-shaped step on an interface), for every one of its 220 possible positions, and from label-boundary skeletons of 3 unfiltered scattered site sets in all 8 orientations",
         "thorough": "depth 4 from 8 initial meshes, depth 2 from every sub-tissue of an 11-cell base, shipped dumps and skeleton depth 2; depth 2 from every single-staircase-corner variant of two rasters, depth 1 from every PAIR of staircase corners of the smaller raster (1653 images)"}
ASSUMPTIONS = ["Vertex.own_big_edges is not constrained by the statement (reported as a diagnostic only)",
               "a call that raises leaves no state; SegmentationArtifactException (and the ValueError that chained contractions produce) is a refusal, not a verdict",
               "holding a shallow copy of the dictionaries models a user who keeps the previous mesh alive (so that __del__ of replaced objects runs late)"]
REQUIRED_TAGS = {"all": ["resampled", "framed", "contracted", "source:direct", "source:se", "source:wkt", "source:tess", "source:raster", "held", "artefact_triangle", "staircase_corner", "detached_piece", "nearly_coincident_corners", "cell_removed", "label_boundary_skeleton"]}

GM = [[ne, rse] for ne in (2, 3, 6, 12) for rse in (True, False)]
OPS = [["gm"] + g for g in GM] + [["frame"], ["hold"], ["release"], ["gc"], ["rmcell", 0], ["rmcell", -1]]


def staircase_corners(img):
    """background pixels that are 4-adjacent to two diagonally adjacent skeleton pixels, both of which are interior pixels of an
    interface (two skeleton neighbours each), and touch no other skeleton pixel; row-major order"""
    H, W = img.shape
    out = []
    for y in range(1, H - 1):
        for x in range(1, W - 1):
            if img[y, x]:
                continue
            on = [(y + dy, x + dx) for dy in (-1, 0, 1) for dx in (-1, 0, 1) if (dy or dx) and img[y + dy, x + dx]]
            if len(on) != 2:
                continue
            a, b = on
            if abs(a[0] - y) + abs(a[1] - x) != 1 or abs(b[0] - y) + abs(b[1] - x) != 1 or abs(a[0] - b[0]) != 1 or abs(a[1] - b[1]) != 1:
                continue
            if all(sum(1 for dy in (-1, 0, 1) for dx in (-1, 0, 1) if (dy or dx) and 0 <= p[0] + dy < H and 0 <= p[1] + dx < W and img[p[0] + dy, p[1] + dx]) == 2 for p in (a, b)):
                out.append((y, x))
    return out


def n_staircase_corners(spec):
    from fsmc.ref import raster as RR
    nx, ny, jit, pat, scale = spec
    img, _ = RR.raster(T.hex_sites(nx, ny, jit / 100.0, pat), scale, minimal_junctions=True)
    return len(staircase_corners(img))


def held_reference_finding(ops):
    """the destructor-based bookkeeping fails when an editing call drops objects that the caller still references: F25 if the
    first such call after a 'hold' is generate_mesh, F32 if it is ForSys.remove_cell; None if no editing call follows a hold"""
    seen_hold = False
    for o in ops:
        if o[0] == "hold":
            seen_hold = True
        elif seen_hold and o[0] == "gm":
            return "F25"
        elif seen_hold and o[0] == "rmcell":
            return "F32"
    return None


def initial_mesh(src):
    """src = [kind, ...]; returns (vertices, edges, cells)"""
    kind = src[0]
    if kind == "direct":
        at = bases.get(src[1])
        if src[2]:
            at = T.sub_tissue(at, src[2])
        v, e, c, _ = T.realise(at, k=src[3], cmap=T.CMap([T.mob(0.03 + 0.01j), T.aff(1.0, complex(-2.5, 1.0))]))
        return v, e, c
    if kind == "se":
        from checks import c14
        at = bases.get(src[1])
        if src[2]:
            at = T.sub_tissue(at, src[2])
        cfg = {"ids": ["gap", 3, 5], "dens": ["all"], "orph": "path", "mag": 1.0, "eol": "\n", "k": src[3], "sign": "alternating", "wrap": 4, "tail": "own"}
        vertices, edges, faces, bodies, xv, xe, _ = c14.generate(at, cfg)
        path = os.path.join(c14.tmpdir(), "c09_%d_%s.dmp" % (os.getpid(), fsutil.state_hash(src)))
        sedump.write_dump(path, vertices, edges, faces, bodies, wrap=4, tail="own", extra_vertices=xv, extra_edges=xe)
        import forsys.surface_evolver as fse
        try:
            se = fse.SurfaceEvolver(path)
        finally:
            os.remove(path)
        return se.vertices, se.edges, se.cells
    if kind == "se_file":
        import forsys.surface_evolver as fse
        se = fse.SurfaceEvolver(src[1])
        return se.vertices, se.edges, se.cells
    if kind == "wkt":
        import forsys.wkt as fw
        at = bases.get(src[1])
        if src[2]:
            at = T.sub_tissue(at, src[2])
        jpos, ipts = T.geometry(at, src[3], T.CMap([T.aff(40.0, 100 + 100j)]))
        rows = []
        for c in sorted(at["C"], key=int):
            pts = []
            for ii, dr in at["C"][c]:
                p = ipts[ii] if dr == 1 else ipts[ii][::-1]
                pts += p[:-1]
            pts.append(pts[0])
            rows.append("POLYGON ((" + ", ".join("%r %r" % (round(z.real, 6), round(z.imag, 6)) for z in pts) + "))")
        return fw.create_lattice(rows)
    if kind == "wkt_pinch":
        # three polygons written by hand: a cell pinched to a waist of width src[1] (two NON-consecutive corners of one polygon that
        # close together) between two neighbours, at pixel-like coordinates src[2]; all corners are distinct points
        import forsys.wkt as fw
        d = src[1] / 2.0
        ox, oy = src[2]
        A = [(0, 0), (2, 0), (3, 1 - d), (4, 0), (6, 0), (6, 2), (4, 2), (3, 1 + d), (2, 2), (0, 2)]
        B = [(0, 0), (0, -2), (6, -2), (6, 0), (4, 0), (3, 1 - d), (2, 0)]
        C = [(0, 2), (2, 2), (3, 1 + d), (4, 2), (6, 2), (6, 4), (0, 4)]
        rows = []
        for poly in (A, B, C):
            pts = [(x * 10.0 + ox, y * 10.0 + oy) for x, y in poly]
            pts.append(pts[0])
            rows.append("POLYGON ((" + ", ".join("%r %r" % (px, py) for px, py in pts) + "))")
        return fw.create_lattice(rows)
    if kind == "tess":
        import forsys.tessellation as ft
        sites = T.hex_sites(src[1], src[2], 0.2, src[3]) * 10.0
        els = ft.create_lattice_elements([tuple(p) for p in sites], max_distance=src[4])
        return ft.create_lattice(*els)
    if kind in ("raster", "raster_corner", "raster_iso"):
        # rasterised Voronoi tissue; src[2] False keeps the non-minimal junction pixels left by thinning (artefact triangles);
        # kind "raster_corner": the minimal raster plus ONE staircase corner (src[2] = its index in row-major order): a pixel that is
        # 4-adjacent to two diagonally adjacent pixels of one interface, so the line has an L-shaped step there, the smallest
        # artefact triangle a 4-connected skeletoniser leaves (its three pixels are mutually adjacent)
        import forsys.skeleton as fsk
        from PIL import Image
        from fsmc.ref import raster as RR
        from checks import c15
        nx, ny, jit, pat, scale = src[1]
        sites = T.hex_sites(nx, ny, jit / 100.0, pat)
        img, topo = RR.raster(sites, scale, minimal_junctions=True if kind != "raster" else src[2])
        if kind == "raster_iso":
            # a second, detached piece of tissue below the first: one closed ring (a cell all of whose pixels belong to it alone:
            # the parser removes such cells) or two cells sharing a wall
            H0, W0 = img.shape
            big = np.zeros((H0 + 60, W0), img.dtype)
            big[:H0, :] = img
            y0, x0, n = H0 + 10, 30, 30
            if src[2] == "diamond":
                for i in range(n // 2 + 1):
                    for yy, xx in ((y0 + i, x0 + n // 2 - i), (y0 + i, x0 + n // 2 + i), (y0 + n - i, x0 + n // 2 - i), (y0 + n - i, x0 + n // 2 + i)):
                        big[yy, xx] = 1
            else:
                big[y0, x0:x0 + n + 1] = 1
                big[y0 + n, x0:x0 + n + 1] = 1
                big[y0:y0 + n + 1, x0] = 1
                big[y0:y0 + n + 1, x0 + n] = 1
                if src[2] == "two":
                    big[y0:y0 + n + 1, x0 + n // 2] = 1
            img = big
        if kind == "raster_corner":
            allc = staircase_corners(img)
            img = img.copy()
            for ci in (src[2] if isinstance(src[2], list) else [src[2]]):      # a list: several staircase corners at once
                cy, cx = allc[ci]
                img[cy, cx] = 1
        full = np.zeros((img.shape[0] + 4, img.shape[1] + 4), np.uint8)
        full[2:-2, 2:-2] = img * 255
        full[0, :] = 255
        full[-1, :] = 255
        full[:, 0] = 255
        full[:, -1] = 255
        path = os.path.join(c15.tmpdir(), "c09_%d_%s.tif" % (os.getpid(), fsutil.state_hash(src)))
        Image.fromarray(full).convert("RGB").save(path)
        try:
            sk = fsk.Skeleton(path)
            # optional 4th element "reduce": the parser's reduce_amount option (collinear interior pixels dropped while parsing)
            return sk.create_lattice(reduce_amount=True) if len(src) > 3 and src[3] == "reduce" else sk.create_lattice()
        finally:
            os.remove(path)
    if kind == "raster_labels":
        # label-boundary skeleton (what a watershed segmentation delivers) of an UNFILTERED scattered site set - irregular cells,
        # short walls, many L-shaped junction triples - under one of the 8 symmetries of the square
        import math
        import forsys.skeleton as fsk
        from PIL import Image
        from fsmc.ref import raster as RR
        from checks import c15
        n, pat, scale = src[1]
        pts = []
        for idx in range(n):
            u = math.modf(abs(math.sin((idx + 1) * 12.9898 + pat * 78.233) * 43758.5453))[0]
            w = math.modf(abs(math.sin((idx + 1) * 39.3468 + pat * 11.135) * 24634.6345))[0]
            pts.append((u * 6.0, w * 6.0))
        img, _ = RR.raster(np.array(pts), scale, style="labels")
        img = np.rot90(img, src[2] % 4)
        img = img.T if src[2] >= 4 else img
        full = np.zeros((img.shape[0] + 4, img.shape[1] + 4), np.uint8)
        full[2:-2, 2:-2] = img * 255
        full[0, :] = 255
        full[-1, :] = 255
        full[:, 0] = 255
        full[:, -1] = 255
        path = os.path.join(c15.tmpdir(), "c09_%d_%s.tif" % (os.getpid(), fsutil.state_hash(src)))
        Image.fromarray(full).convert("RGB").save(path)
        try:
            return fsk.Skeleton(path).create_lattice()
        finally:
            os.remove(path)
    if kind == "skeleton":
        import forsys.skeleton as fsk
        sk = fsk.Skeleton(src[1])
        return sk.create_lattice(reduce_amount=True) if len(src) > 2 and src[2] == "reduce" else sk.create_lattice()
    raise ValueError(src)


class MeshHistories:
    chunk = 4

    def __init__(self, name, sources, depth, ops=OPS):
        self.name = name
        self.sources = sources
        self.bound = depth
        self.ops = ops

    def initial(self):
        return [{"s": i, "ops": []} for i in range(len(self.sources))]

    def actions(self, d):
        return [list(o) for o in self.ops]

    def step(self, d, a):
        return {"s": d["s"], "ops": d["ops"] + [list(a)]}

    def evaluate(self, d):
        import forsys.virtual_edges as ve
        import forsys.frames as ff
        from forsys.exceptions import SegmentationArtifactException
        src = self.sources[d["s"]]
        tags = ["source:%s" % {"se_file": "se", "raster_corner": "raster", "raster_iso": "raster", "wkt_pinch": "wkt", "raster_labels": "raster"}.get(src[0], src[0])]
        if src[0] == "raster_labels":
            tags.append("label_boundary_skeleton")
        if src[0] == "wkt_pinch":
            tags.append("nearly_coincident_corners")
        if src[0] == "raster_iso":
            tags.append("detached_piece")
        if src[0] == "raster_corner":
            tags.append("staircase_corner")
        try:
            with fsutil.quiet():
                v, e, c = initial_mesh(src)
        except Exception as ex:
            return {"viol": [{"what": "parser raised", "detail": {"source": src, "exc": fsutil.exc_str(ex)}}], "tags": tags, "cls": "parser-exc"}
        held = []
        frame = None
        nv0 = len(v)
        # F13 precondition: the parsed mesh still contains an artefact triangle (three mutually adjacent vertices: a junction
        # pixel that lies on one cell's contour only makes its edges 'external' for the parser, which then skips the merge)
        nb = {}
        vtx = {k: (w.x, w.y) for k, w in v.items()}
        for ed in e.values():
            nb.setdefault(ed.v1.id, set()).add(ed.v2.id)
            nb.setdefault(ed.v2.id, set()).add(ed.v1.id)
        ed = None      # do not keep the last SmallEdge alive (its __del__ must run when generate_mesh drops it: see F25)
        # a cycle of three or four mesh edges cannot occur in a skeleton with minimal junction pixels (cells are much longer)
        tri = any(b in nb[a] and c_ in nb[a] for a in nb for b in nb[a] for c_ in nb[b] if c_ != a and b != a)
        if not tri:
            ids_ = sorted(nb)
            tri = any(len(nb[a] & nb[b]) >= 2 for a in ids_ if len(nb[a]) >= 3 for b in ids_ if b > a and len(nb[b]) >= 3 and b not in nb[a]
                      and abs(vtx[a][0] - vtx[b][0]) + abs(vtx[a][1] - vtx[b][1]) < 5)
        for n, op in enumerate(d["ops"]):
            try:
                with fsutil.quiet():
                    if op[0] == "gm":
                        before = c11.snapshot(v, e, c)
                        v, e, c, _ = ve.generate_mesh(v, e, c, ne=op[1], replace_short_edges=op[2])
                        tags.append("resampled")
                        if any(k not in range(-10 ** 9, 10 ** 9) for k in ()):
                            pass
                    elif op[0] == "frame":
                        frame = ff.Frame(0, v, e, c, time=0.0)
                        tags.append("framed")
                    elif op[0] == "rmcell":
                        # the library's own editing function: ForSys.remove_cell deletes a cell (with the vertices and edges that
                        # only it owns) and rebuilds the Frame; op[1] = which cell, by position in id order
                        if len(c) < 3:
                            return {"viol": [], "tags": tags + ["too_few_cells_to_remove"], "cls": "norm", "outdom": True}
                        import forsys as fs_
                        fr_ = ff.Frame(0, v, e, c, time=0.0)
                        s_ = fs_.ForSys({0: fr_})
                        fr_ = None
                        cid_ = sorted(c)[op[1] % len(c)]
                        s_.remove_cell(0, cid_)
                        frame = s_.frames[0]
                        v, e, c = frame.vertices, frame.edges, frame.cells
                        s_ = None
                        tags.append("cell_removed")
                    elif op[0] == "hold":
                        held.append((dict(v), dict(e), dict(c), frame))
                        tags.append("held")
                    elif op[0] == "release":
                        held = []
                        frame = None
                        gc.collect()
                    elif op[0] == "gc":
                        gc.collect()
            except (SegmentationArtifactException,):
                return {"viol": [], "tags": tags + ["refused"], "cls": "refused", "outdom": True}
            except Exception as ex:
                if op[0] == "gm" and op[2] and c11.relation(before, before, op[1], op[2], []) is None:
                    # two-point border interfaces that share a vertex cannot all be contracted; the library fails on them with
                    # KeyError->SegmentationArtifactException, ValueError or IndexError depending on the order
                    return {"viol": [], "tags": tags + ["refused_chained_contraction"], "cls": "refused", "outdom": True}
                if tri and any(o[0] == "gm" for o in d["ops"][:n + 1]):
                    return {"viol": [], "known": [{"id": "F13", "exc": fsutil.exc_str(ex), "ops": d["ops"][:n + 1]}], "tags": tags, "cls": "exc-after-F13", "outdom": True}
                fid = held_reference_finding(d["ops"][:n + 1])
                if fid:
                    return {"viol": [], "known": [{"id": fid, "exc": fsutil.exc_str(ex), "ops": d["ops"][:n + 1]}], "tags": tags, "cls": "exc-after-" + fid, "outdom": True}
                return {"viol": [{"what": "%s raised" % op[0], "detail": {"exc": fsutil.exc_str(ex), "ops": d["ops"][:n + 1]}}], "tags": tags, "cls": "exc", "outdom": True}
        snap = fsutil.snapshot(v, e, c)
        prob = RM.check_mesh(v, e, c)
        viol, known = [], []
        if tri:
            tags.append("artefact_triangle")
        if any(op[0] == "gm" and op[2] for op in d["ops"]) and any(isinstance(k, int) and k >= nv0 for k in v):
            tags.append("contracted")
        if prob and tri and any(op[0] == "gm" for op in d["ops"]) and all("not joined by a mesh edge" in x for x in prob):
            known.append({"id": "F13", "problems": prob[:2], "ops": d["ops"]})
        elif prob:
            fid = held_reference_finding(d["ops"])
            if fid:
                # the previous SmallEdge/Cell objects were still alive (the user kept them) when an editing call dropped them: their
                # __del__ had not run, so the vertices still list the old ids next to the new ones (or lose new ids when the old
                # objects die later)
                known.append({"id": fid, "problems": prob[:2], "ops": d["ops"]})
            else:
                viol.append({"what": "mesh is inconsistent", "detail": {"problems": prob[:4], "ops": d["ops"], "source": src}})
        stale = sum(1 for vv in v.values() for b in vv.own_big_edges if frame is None or b not in frame.big_edges)
        if stale:
            tags.append("diagnostic:stale_own_big_edges")
        key = fsutil.state_hash([d["s"], snap, len(held), frame is not None])
        sig = "".join(o[0][0] for o in d["ops"])
        cls = "%s/%d/%d/%d/%s" % (src[0], len(v), len(e), len(c), sig)
        return {"key": key, "viol": viol, "known": known, "tags": sorted(set(tags)), "cls": cls, "nontrivial": bool(d["ops"])}

    def check_edge(self, d, a, d2, r, r2):
        return [], []


def build(tier, seed):
    subs = T.connected_subsets(bases.get("v5x4"), min_size=1)
    hole = None
    at = bases.get("v5x5")
    # a sub-tissue with a hole: remove one interior cell of the 11-cell base
    adj = T.cell_adjacency(at)
    inner = max(at["C"], key=lambda c: len(adj[c]))
    hole = [c for c in sorted(at["C"], key=int) if c != inner]
    few = [["direct", "v5x4", None, 0], ["direct", "v5x4", None, 2], ["se", "v5x4", None, 2], ["wkt", "v5x4", None, 1],
           ["tess", 5, 4, seed + 1, 40.0], ["direct", "v5x5", hole, 0], ["raster", [5, 4, 15, 0, 40], True], ["raster", [5, 4, 15, 0, 40], False], ["direct", "lens", None, 3],
           ["raster", [5, 4, 15, 0, 40], True, "reduce"], ["raster", [4, 4, 0, 0, 30], True, "reduce"],
           ["wkt_pinch", 0.004, [800.0, 600.0]], ["wkt_pinch", 0.5, [0.0, 0.0]], ["wkt_pinch", 1e-6, [3.0, -2.0]],
           ["raster_iso", [5, 4, 15, 0, 40], "square"], ["raster_iso", [5, 4, 15, 0, 40], "diamond"], ["raster_iso", [5, 4, 15, 0, 40], "two"]]
    light = [["gm", 2, True], ["gm", 6, True], ["gm", 3, False], ["frame"], ["hold"], ["release"], ["rmcell", 0], ["rmcell", -1]]
    spec = [5, 4, 15, 0, 40]
    corners = [["raster_corner", spec, i] for i in range(n_staircase_corners(spec))]
    labels = [["raster_labels", [36, pat, 28], sym] for pat in (36, 3, 17) for sym in range(8)]
    if tier == "quick":
        return [MeshHistories("parsers-depth3", few, 3),
                MeshHistories("label-boundary-skeletons-depth1", labels, 1, [["gm", 4, True], ["frame"]]),
                MeshHistories("staircase-corners-all-depth1", corners, 1, [["gm", 4, True], ["gm", 2, False], ["frame"]]),
                MeshHistories("subtissues-depth2", [["direct", "v5x4", S, k] for S in subs for k in (0, 2)], 2, light)]
    subs2 = T.connected_subsets(bases.get("v5x5"), min_size=1)
    more = few + [["se", "v5x5", None, 0], ["wkt", "v5x5", hole, 2], ["tess", 6, 6, seed + 2, 1000.0]]
    files = [["se_file", REPO + "/tests/data/furrow_gauss_velocity/stage0.dmp"], ["se_file", REPO + "/tests/data/12_12/step_20.dmp"],
             ["skeleton", REPO + "/tests/data/test_nonzero.tif"], ["skeleton", REPO + "/tests/data/experimental/exp_1.tif", "reduce"],
             ["skeleton", REPO + "/examples/data/in_vivo/t_1.tif"]]
    spec2 = [4, 4, 0, 0, 30]
    corners += [["raster_corner", spec2, i] for i in range(n_staircase_corners(spec2))]
    n2 = n_staircase_corners(spec2)
    pairs = [["raster_corner", spec2, [i, j]] for i in range(n2) for j in range(i + 1, n2)]
    return [MeshHistories("parsers-depth4", more, 4),
            MeshHistories("staircase-corners-all-depth2", corners, 2, light),
            MeshHistories("label-boundary-skeletons-depth2", labels + [["raster_labels", [36, pat, 28], sym] for pat in range(40, 52) for sym in range(8)], 2, light),
            MeshHistories("staircase-corner-pairs-all-depth1", pairs, 1, [["gm", 4, True], ["frame"]]),
            MeshHistories("subtissues-depth2", [["direct", "v5x5", S, k] for S in subs2 for k in (0, 2)], 2, light),
            MeshHistories("shipped-depth2", files, 2, light)]
