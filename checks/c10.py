"""C10 — results are a pure function of frame data and the last call's arguments.

Operation histories on ONE live ForSys object (build_force_matrix / solve_stress / build_pressure_matrix /
solve_pressure / get_system_velocity_per_frame over the frames of a series, any order, any mix of options) are
explored breadth first; a state is the whole object graph (instance dictionaries included, so hidden caches
cannot be merged away). In every state and for every frame solved so far: store/mesh agreement, and identity
with a FRESH object on which only the operations that the statement says matter were executed.
"""
import math

import numpy as np

from fsmc import bases, tissue as T, fsutil, solvecase as SC
from fsmc.ref import tangent as RT
from fsmc.explorer import ListSystem, ProductSystem

PID = "C10"
RULE = ("states = reachable object graphs of a ForSys under op histories (BFS, de-duplicated on a hash of all instance dictionaries); "
        "non-trivial = at least one frame solved; classes = (effective ops per frame)")
BOUND = {"quick": "1 frame: all histories to depth 3 over 12 ops from 2 start states (fresh; solved with an angle limit and pressures); 2 frames: depth 3 over 16 ops from the fresh object, depth 2 over 18 ops from a solved one; 9 calls x 2 tissues x 2 frames with optional arguments omitted vs spelled out at their defaults; three 12-call pipelines over 2 frames and every sequence differing from them in 1 position (9 alternative calls or dropped)",
         "thorough": "1 frame: depth 4 over 13 ops from 3 start states; 2 frames: depth 3 over 22 ops from 2 start states; 3 frames: depth 2 over 19 ops from 2 start states; 12-call pipelines with 1 deviation over 18 alternatives and 2 deviations over 9 alternatives"}
ASSUMPTIONS = ["what matters for the tensions of frame t: the last successful build of t before the last successful solve of t, and that solve's arguments",
               "what matters for the pressures of frame t: the tensions present when the pressure matrix was last built, and the last solve_pressure",
               "interfaces excluded by an angle limit are only compared through the -1 reported for them",
               "cm=False (centre-of-mass shifting edits the frame data itself)"]
REQUIRED_TAGS = {"all": ["solved", "pressure_solved", "excluded_some", "resolved_other_options", "two_frames", "velocity", "sysvel", "data_edited", "defaults_spelled_out", "long_sequence", "len12"]}

BUILDS = {"bdef": {}, "btau": {"circle_fit_method": "taubinSVD"}, "bang": "ANGLE"}
SOLVES = {"sdef": {}, "slsq": {"method": "lsq"}, "slin": {"method": "lsq_linear"}, "svel": {"b_matrix": "velocity"}, "sfix": {"method": "fix_stress"},
          "sneg": {"allow_negatives": False}}


def series_spec(base, cells, nframes):
    at = bases.get(base)
    if cells:
        at = T.sub_tissue(at, cells)
    ext = SC.extent_of(bases.get(base))
    cm = SC.make_cmap(["m", 0.05, 0.02], 0.3, (0, 0), 1.0, ext)
    times = [0.0, 0.5, 1.2, 2.0]
    spec = []
    for t in range(nframes):
        post = None if t == 0 else SC.noise_post(0.01 * t, t)
        spec.append({"at": at, "k": 3, "cmap": cm, "post": post, "time": times[t]})
    return at, cm, spec


def angle_limit_for(at, cm):
    """a limit that flags roughly half of the junctions, so that some interface has both ends flagged"""
    ref = RT.reference_system(at, cm)
    import cmath
    mx = []
    for j in ref["rows"]:
        ts = [t for _, t in ref["ends"][j]]
        best = 0.0
        for a in range(len(ts)):
            for b in range(a + 1, len(ts)):
                best = max(best, abs(cmath.phase(ts[a] / ts[b])))
        mx.append(best)
    mx.sort()
    lim = (mx[len(mx) // 3] + mx[len(mx) // 3 + 1]) / 2 if len(mx) > 2 else 2.3
    return float(lim)


class Histories:
    chunk = 2

    def __init__(self, name, base, cells, nframes, ops, depth, roots=()):
        self.name = name
        self.roots = list(roots)
        self.base, self.cells, self.nframes = base, cells, nframes
        self.ops = ops
        self.bound = depth
        self.at, self.cm, self.spec = series_spec(base, cells, nframes)
        self.limit = angle_limit_for(self.at, self.cm)

    def initial(self):
        # exploration also starts from non-initial states (most history bugs need a solved object to manifest)
        return [{"ops": []}] + [{"ops": [list(o) for o in r]} for r in self.roots]

    def actions(self, d):
        return [list(o) for o in self.ops]

    def step(self, d, a):
        return {"ops": d["ops"] + [list(a)]}

    # ---- execution of one op on a live object
    def apply(self, s, op):
        kind = op[0]
        if kind == "sysvel":
            if len(op) > 1:
                return fsutil.call(s.get_system_velocity_per_frame, time_interval=[op[1]])      # only the frame asked for
            return fsutil.call(s.get_system_velocity_per_frame)
        t = op[1]
        if kind == "shift":
            # the frame's DATA is edited in place (this is what ForSys(cm=True) does to every frame): all vertices translated
            for v in s.frames[t].vertices.values():
                v.x += 0.37
                v.y -= 0.21
            return None, None
        if kind in BUILDS:
            kw = BUILDS[kind]
            if kw == "ANGLE":
                kw = {"angle_limit": self.limit}
            return fsutil.call(s.build_force_matrix, when=t, **kw)
        if kind in SOLVES:
            return fsutil.call(s.solve_stress, when=t, **SOLVES[kind])
        if kind == "pbuild":
            return fsutil.call(s.build_pressure_matrix, when=t)
        if kind == "psolve":
            return fsutil.call(s.solve_pressure, when=t, method="lagrange_pressure")
        raise ValueError(op)

    def fresh(self, shifts=None):
        """a fresh ForSys; with `shifts` = {frame: n} the frames are BUILT from coordinates already translated n times (so that
        nothing inside the fresh objects can be stale with respect to the data)"""
        shifts = shifts or {}

        def shifted(post, n):
            def f(jpos, ipts):
                if post is not None:
                    jpos, ipts = post(jpos, ipts)
                def mv(z):
                    x, y = z.real, z.imag
                    for _ in range(n):
                        x += 0.37
                        y -= 0.21
                    return complex(x, y)
                return {j: mv(z) for j, z in jpos.items()}, [[mv(z) for z in pts] for pts in ipts]
            return f
        spec = [dict(sp, post=shifted(sp.get("post"), shifts.get(t, 0))) if shifts.get(t, 0) else sp for t, sp in enumerate(self.spec)]
        s, infos, ex = SC.build_series(spec, cm=False) if self.nframes > 1 else (None, None, None)
        if self.nframes == 1:
            import forsys as fs
            with fsutil.quiet():
                v, e, c, info = T.realise(spec[0]["at"], k=3, cmap=spec[0]["cmap"], post=spec[0].get("post"))
                s = fs.ForSys({0: T.frame_of(v, e, c, 0, 0.0)})
            infos = [info]
        if s is None:
            raise RuntimeError("series construction failed: %s" % ex)
        return s, infos

    @staticmethod
    def report(s, t):
        """what the public API reports for frame t"""
        fr = s.frames[t]
        out = {}
        f = s.forces.get(t)
        out["forces"] = None if f is None else [float(f[i]) for i in range(len(f))]
        ff_ = getattr(fr, "forces", None)
        out["frame_forces_is_store"] = ff_ is f or (ff_ is not None and f is not None and len(ff_) == len(f) and all(float(ff_[i]) == float(f[i]) for i in range(len(f))))
        df, ex = fsutil.call(fr.get_tensions, with_border=True)
        out["table"] = None if ex else [[int(a), float(b)] for a, b in zip(df["id"], df["stress"])]
        dfi, ex = fsutil.call(fr.get_tensions)
        out["table_internal_ids"] = None if ex else [int(a) for a in dfi["id"]]
        out["internal_ids"] = [be.big_edge_id for be in fr.internal_big_edges]
        out["be_tension"] = {be.big_edge_id: float(be.tension) for be in fr.big_edges.values()}
        out["se_tension"] = {be.big_edge_id: [float(fr.edges[e].tension) for e in be.edges] for be in fr.big_edges.values()}
        out["external_ids"] = [be.big_edge_id for be in fr.big_edges.values() if be.external]
        out["cell_pressure"] = {int(cid): (None if c.pressure is None else float(c.pressure)) for cid, c in fr.cells.items()}
        return out

    def evaluate(self, d):
        s, infos = self.fresh()
        viol, known, tags = [], [], []
        # bookkeeping of what the statement says matters
        cur_build = {}        # t -> op of the force matrix now stored
        solve_ctx = {}        # t -> (build op at solve time, solve op)
        press_ctx = {}        # t -> (solve_ctx at pbuild time or None)
        psolved = {}          # t -> press_ctx at psolve time
        f9_dirty = {}         # t -> a solve failed on a matrix mutilated by fix_stress after writing part of its result
        build_shift = {}      # t -> data version (number of shifts) when the stored force matrix was built
        shifts = {}           # t -> number of in-place translations of the frame's vertices so far
        tainted = {}          # t -> the stored matrix lost a column through a failed fix_stress (finding F9)
        excs = []
        for op in d["ops"]:
            res, ex = self.apply(s, op)
            excs.append(None if ex is None else type(ex).__name__)
            kind = op[0]
            if kind == "shift":
                shifts[op[1]] = shifts.get(op[1], 0) + 1
                tags.append("data_edited")
                continue
            if kind == "sysvel":
                tags.append("sysvel")
                if ex is None:
                    for t in (range(self.nframes) if len(op) == 1 else [op[1]]):
                        cur_build[t] = ["bsys", t]
                        build_shift[t] = shifts.get(t, 0)
                        tainted[t] = False
                continue
            t = op[1]
            if kind in BUILDS and ex is None:
                cur_build[t] = op
                build_shift[t] = shifts.get(t, 0)
                tainted[t] = False
            elif kind in SOLVES:
                if kind == "sfix" and t in cur_build:
                    tainted[t] = True
                if tainted.get(t) and kind != "sfix" and ex is not None:
                    # a solve on the matrix that fix_stress mutilated failed half-way: mesh edges already overwritten (F9)
                    f9_dirty[t] = True
                if ex is None:
                    if t in solve_ctx and solve_ctx[t] != (cur_build.get(t), op):
                        tags.append("resolved_other_options")
                    solve_ctx[t] = (cur_build.get(t), op, bool(tainted.get(t)) and kind != "sfix", build_shift.get(t, 0), dict(shifts))
                    if kind == "svel":
                        tags.append("velocity")
            elif kind == "pbuild" and ex is None:
                press_ctx[t] = solve_ctx.get(t)
            elif kind == "psolve" and ex is None:
                psolved[t] = press_ctx.get(t)
        hidden = fsutil.state_hash([fsutil.deep_state(s, max_depth=7), excs[-1:]])
        if self.nframes > 1:
            tags.append("two_frames")
        # ---- oracle
        for t in range(self.nframes):
            rep = self.report(s, t)
            fr = s.frames[t]
            if t in solve_ctx:
                tags.append("solved")
                forces = rep["forces"]
                if forces is None or len(forces) != len(rep["internal_ids"]):
                    viol.append({"what": "per-frame tension store does not hold one value per internal interface under the frame's key", "detail": {"frame": t, "forces": forces}})
                    continue
                if not rep["frame_forces_is_store"]:
                    viol.append({"what": "Frame.forces differs from what is stored under ForSys.forces[t]", "detail": {"frame": t}})
                if rep["table_internal_ids"] != rep["internal_ids"]:
                    viol.append({"what": "tension table does not list exactly the internal interfaces in order", "detail": {"frame": t}})
                for i, beid in enumerate(rep["internal_ids"]):
                    if forces[i] == -1:
                        tags.append("excluded_some")
                        continue
                    if abs(rep["be_tension"][beid] - forces[i]) > 1e-9 or any(abs(x - forces[i]) > 1e-9 for x in rep["se_tension"][beid]):
                        if solve_ctx[t][2] or f9_dirty.get(t):
                            known.append({"id": "F9", "frame": t, "ops": d["ops"]})
                        else:
                            viol.append({"what": "i-th reported tension differs from the tension stored on the i-th internal interface / its mesh edges",
                                         "detail": {"frame": t, "i": i, "reported": forces[i], "interface": rep["be_tension"][beid], "mesh_edges": rep["se_tension"][beid][:4]}})
                        break
                for beid in rep["external_ids"]:
                    if rep["be_tension"][beid] != 0 or any(x != 0 for x in rep["se_tension"][beid]):
                        viol.append({"what": "an external interface carries a non-zero tension", "detail": {"frame": t, "interface": beid}})
                        break
                # differential: fresh object, only the operations that matter
                b_op, s_op, taint, bsh, allsh = solve_ctx[t]
                # data edits up to the build (translations commute); the velocity term of a dynamic solve reads the positions
                # at solve time, so for velocity solves the data version at solve time is used for all frames
                if s_op[0] == "svel" and (allsh.get(t, 0) != bsh or len({allsh.get(tt, 0) for tt in range(self.nframes)}) > 1):
                    # matrix built on older positions than the velocities, or frames translated by different amounts (a fresh
                    # series built from such data would be tracked differently): nothing is promised
                    continue
                s2, _ = self.fresh({tt: (allsh.get(tt, 0) if (s_op[0] == "svel" or tt != t) else bsh) for tt in range(self.nframes)})
                for op in ([b_op] if b_op else []) + [s_op]:
                    if op[0] == "bsys":
                        # get_system_velocity_per_frame rebuilt the matrix with the default fit and no angle limit: the fresh
                        # object gets exactly such a matrix through the ordinary call (and nothing else that the helper may leave behind)
                        fsutil.call(s2.build_force_matrix, when=op[1], angle_limit=np.inf)
                    else:
                        self.apply(s2, op)
                rep2 = self.report(s2, t)
                if rep2["forces"] is None:
                    if b_op is None:
                        # the live object solved frame t although none of its calls builds a matrix for frame t: some other call
                        # (for another frame) must have built it
                        viol.append({"what": "a frame was solved on the live object although no call of the history builds its matrix (a call addressed to another frame did)",
                                     "detail": {"frame": t, "history": d["ops"]}})
                        continue
                    raise RuntimeError("fresh replay did not solve frame %d: %s" % (t, solve_ctx[t]))
                tol = 1e-9 if s_op[0] not in ("slsq",) else 1e-6
                diff = max(abs(a - b) for a, b in zip(forces, rep2["forces"])) if forces else 0.0
                if len(forces) != len(rep2["forces"]) or diff > tol:
                    if taint or any(o[0] == "sfix" for o in d["ops"]):
                        known.append({"id": "F9", "frame": t, "diff": diff})
                    else:
                        viol.append({"what": "tensions reported for a frame depend on the history (differ from a fresh object solved once with the same last build and solve)",
                                     "detail": {"frame": t, "max_diff": diff, "history": d["ops"], "effective": [b_op, s_op]}})
            if t in psolved:
                tags.append("pressure_solved")
                if any(v is None for v in rep["cell_pressure"].values()):
                    viol.append({"what": "a cell carries no pressure after solve_pressure", "detail": {"frame": t}})
                    continue
                store = s.pressures
                got = store.get(t) if isinstance(store, dict) else None
                cells = list(fr.cells.keys())
                exp = [rep["cell_pressure"][int(c)] for c in cells]
                if got is None or len(got) != len(exp) or max(abs(float(a) - b) for a, b in zip(got, exp)) > 1e-12:
                    known.append({"id": "F10", "frame": t, "store_type": type(store).__name__})
                ctx = psolved[t]
                s2, _ = self.fresh()
                if ctx is not None:
                    b_op, s_op, taint, bsh, allsh = ctx
                    for tt in range(self.nframes):
                        for _ in range(allsh.get(tt, 0) if tt != t else bsh):
                            self.apply(s2, ["shift", tt])
                    if any(o[0] == "shift" for o in d["ops"]):
                        continue      # pressures after in-place edits mix data versions (curvature snapshot vs live tensions): no verdict
                    for op in ([b_op] if b_op else []) + [s_op]:
                        if op[0] == "bsys":
                            fsutil.call(s2.build_force_matrix, when=op[1], angle_limit=np.inf)
                        else:
                            self.apply(s2, op)
                else:
                    taint = False
                self.apply(s2, ["pbuild", t])
                self.apply(s2, ["psolve", t])
                rep2 = self.report(s2, t)
                if any(v is None for v in rep2["cell_pressure"].values()):
                    continue
                dp = max(abs(rep["cell_pressure"][c] - rep2["cell_pressure"][c]) for c in rep["cell_pressure"])
                if dp > 1e-8:
                    if taint or any(o[0] == "sfix" for o in d["ops"]):
                        known.append({"id": "F9", "frame": t, "pdiff": dp})
                    else:
                        viol.append({"what": "pressures reported for a frame depend on the history (differ from a fresh object)",
                                     "detail": {"frame": t, "max_diff": dp, "history": d["ops"]}})
        cls = "%s|%s" % (sorted((t, str(v[0]), str(v[1])) for t, v in solve_ctx.items()), sorted(psolved))
        return {"key": hidden, "viol": viol, "known": known, "tags": sorted(set(tags)), "cls": cls, "nontrivial": bool(solve_ctx)}

    def check_edge(self, d, a, d2, r, r2):
        return [], []


def first_connected(base, n):
    at = bases.get(base)
    best = None
    for S in T.connected_subsets(at, min_size=n, max_size=n):
        sub = T.sub_tissue(at, S)
        rows = len(RT.reference_system(sub)["rows"])
        if best is None or rows > best[0]:
            best = (rows, S)
    return best[1]


def ops_for(nframes, builds, solves, sysvel=True):
    ops = []
    for t in range(nframes):
        ops += [[b, t] for b in builds] + [[s, t] for s in solves] + [["pbuild", t], ["psolve", t], ["shift", t]]
    if sysvel:
        ops.append(["sysvel"])
        if nframes > 1:
            ops.append(["sysvel", nframes - 1])      # an explicit list of frames: only those are rebuilt
    return ops


# ---------------------------------------------------------------- arguments spelled out with their default values
SPELLED = {
    "forsys": None,
    "build": {"term": "none", "metadata": {}, "angle_limit": math.pi, "circle_fit_method": "dlite"},
    "solve": {"method": None, "allow_negatives": True, "use_std": False, "verbose": False, "b_matrix": None, "adimensional_velocity": False,
              "velocity_normalization": 1, "nnls_max_iter": None},
    "solve_lsq": {"method": "lsq", "use_std": False, "allow_negatives": True, "verbose": False},
    "solve_lsq_x0": {"method": "lsq", "initial_condition": "ONES"},
    "solve_lin": {"method": "lsq_linear", "allow_negatives": True, "b_matrix": None},
    "solve_velocity": {"b_matrix": "velocity", "adimensional_velocity": False, "velocity_normalization": 1, "method": None, "allow_negatives": True},
    "solve_adim": {"b_matrix": "velocity", "adimensional_velocity": True, "method": None, "use_std": False},
    "pressure": {"method": "lagrange_pressure", "allow_negatives": True, "nnls_max_iter": None},
}
OMITTED = {"build": {}, "solve": {}, "solve_lsq": {"method": "lsq"}, "solve_lsq_x0": {"method": "lsq"}, "solve_lin": {"method": "lsq_linear"},
           "solve_velocity": {"b_matrix": "velocity"}, "solve_adim": {"b_matrix": "velocity", "adimensional_velocity": True},
           "pressure": {"method": "lagrange_pressure"}}


def eval_spelled(d):
    """the same call with its optional arguments omitted and with every one of them given its documented default value: the
    'last call's arguments' are the same, so the results must be identical"""
    import forsys as fs
    what, noisy, t = d["what"], d["noisy"], d["frame"]
    nframes = 2
    at, cm, spec = series_spec("v5x5", d["cells"], nframes)
    if noisy:
        spec = [dict(sp, post=(SC.noise_post(0.03, 5) if i == 0 else (lambda j, p, a=SC.noise_post(0.03, 5), b=sp["post"]: b(*a(j, p))))) for i, sp in enumerate(spec)]
    out = []
    for spelled in (False, True):
        if what == "forsys" and spelled:
            with fsutil.quiet():
                frames = {}
                for i, sp in enumerate(spec):
                    v, e, c, info = T.realise(sp["at"], k=sp["k"], cmap=sp["cmap"], post=sp["post"])
                    frames[i] = T.frame_of(v, e, c, fid=i, time=sp["time"])
                s, ex = fsutil.call(fs.ForSys, frames, cm=False, initial_guess=[])
            del frames, v, e, c, info
        else:
            s, infos, ex = SC.build_series(spec, cm=False)
        if ex is not None:
            out.append({"exc": fsutil.exc_str(ex)})
            continue
        kw = lambda key: dict((SPELLED if spelled and what == key else OMITTED)[key])
        bkw = kw("build")
        _, ex = fsutil.call(s.build_force_matrix, when=t, **bkw)
        skey = what if what.startswith("solve") else "solve"
        skw = kw(skey)
        if skw.get("initial_condition") == "ONES":
            skw["initial_condition"] = np.ones(len(s.frames[t].internal_big_edges))
        if ex is None:
            _, ex = fsutil.call(s.solve_stress, when=t, **skw)
        if ex is None:
            _, ex = fsutil.call(s.build_pressure_matrix, when=t)
        if ex is None:
            _, ex = fsutil.call(s.solve_pressure, when=t, **kw("pressure"))
        if ex is not None:
            out.append({"exc": fsutil.exc_str(ex)})
            continue
        out.append({"exc": None, "forces": [float(s.forces[t][i]) for i in range(len(s.forces[t]))],
                    "pressures": [float(c.pressure) for c in s.frames[t].cells.values()],
                    "tensions": [float(be.tension) for be in s.frames[t].internal_big_edges]})
    a, b = out
    viol = []
    tags = ["defaults_spelled_out", "spelled:" + what]
    if a["exc"] != b["exc"]:
        viol.append({"what": "a call raises with its optional arguments spelled out at their default values and not without them (or vice versa)",
                     "detail": {"call": what, "omitted": a["exc"], "spelled": b["exc"]}})
    elif a["exc"] is None:
        for key in ("forces", "tensions", "pressures"):
            dmax = max([abs(x - y) for x, y in zip(a[key], b[key])] or [0.0])
            if len(a[key]) != len(b[key]) or dmax > 1e-9:
                viol.append({"what": "results differ between a call with optional arguments omitted and the same call with them spelled out at their default values",
                             "detail": {"call": what, "quantity": key, "max_diff": dmax, "arguments": {k: str(v) for k, v in (SPELLED[what] or {"cm": False, "initial_guess": []}).items()}}})
                break
    return {"viol": viol, "tags": tags, "cls": "%s/%s/%s" % (what, noisy, t), "nontrivial": a["exc"] is None}


# ---------------------------------------------------------------- long sequences, deviation bounded
class LongSequences(ProductSystem):
    """the statement ranges over sequences of up to 12 calls; breadth-first search from the empty history cannot reach that depth,
    so long sequences are explored by DEVIATIONS instead: a 12-call pipeline (both frames built, solved, pressures, system
    velocity, a re-solve with other options) and every sequence that differs from it in at most `bound` positions, each position
    being replaced by any other call of the alphabet or dropped. Every sequence is executed on a live object and judged by the
    same oracle as the breadth-first histories (store/mesh agreement + fresh object with only the calls that matter)."""
    chunk = 2

    def __init__(self, name, hist, pipelines, alts, bound):
        self.name = name
        self.hist = hist
        self.pipelines = pipelines
        self.alts = alts
        self.bound = bound

    def bases(self):
        return list(range(len(self.pipelines)))

    def axes(self, base):
        seq = self.pipelines[base]
        return {"p%02d" % i: [list(op)] + [list(a) for a in self.alts if list(a) != list(op)] + [["skip"]] for i, op in enumerate(seq)}

    def eval_config(self, base, cfg):
        ops = [cfg[k] for k in sorted(cfg) if cfg[k] != ["skip"]]
        r = self.hist.evaluate({"ops": ops})
        r.pop("key", None)
        r["tags"] = sorted(set(r["tags"] + ["long_sequence", "len%d" % len(ops)]))
        r["cls"] = "L%d|%s" % (len(ops), r["cls"])
        return r

    def check_pair(self, base, axis, cfg1, r1, cfg2, r2):
        return [], []


PIPELINES = [
    [["bdef", 0], ["sdef", 0], ["pbuild", 0], ["psolve", 0], ["bdef", 1], ["svel", 1], ["pbuild", 1], ["psolve", 1], ["sysvel"], ["bang", 0], ["sdef", 0], ["psolve", 0]],
    [["bang", 1], ["sdef", 1], ["bdef", 0], ["svel", 0], ["pbuild", 0], ["psolve", 0], ["btau", 1], ["slsq", 1], ["pbuild", 1], ["psolve", 1], ["bdef", 0], ["sdef", 0]],
    # re-solving with other options on the SAME force matrix, then building and solving the pressures again (frame 0); on frame 1 the
    # pressure matrix is built before the last re-solve (its pressures belong to the tensions present at that build)
    [["bdef", 0], ["sdef", 0], ["pbuild", 0], ["psolve", 0], ["svel", 0], ["pbuild", 0], ["psolve", 0], ["bdef", 1], ["svel", 1], ["pbuild", 1], ["sdef", 1], ["psolve", 1]],
]


def build(tier, seed):
    cells = first_connected("v5x5", 7)
    spelled = ListSystem("defaults-spelled-out", [{"what": w, "noisy": nz, "frame": t, "cells": cells if tier == "quick" or big == 0 else None}
                                                  for w in SPELLED for nz in (False, True) for t in (0, 1) for big in ((0,) if tier == "quick" else (0, 1))], eval_spelled)
    h2 = Histories("two-frames-long", "v5x5", cells, 2, [], 0)
    alts_q = [["bdef", 0], ["bang", 1], ["sdef", 1], ["svel", 0], ["slin", 0], ["pbuild", 1], ["psolve", 0], ["shift", 0], ["sysvel"], ["sysvel", 1]]
    alts_t = alts_q + [["btau", 0], ["bdef", 1], ["sdef", 0], ["svel", 1], ["sfix", 1], ["pbuild", 0], ["psolve", 1], ["shift", 1], ["slsq", 0]]
    if tier == "quick":
        r1 = [[["bang", 0], ["sdef", 0], ["pbuild", 0], ["psolve", 0]], [["bdef", 0], ["sdef", 0], ["bang", 0], ["sdef", 0], ["pbuild", 0]]]
        r2 = [[["bdef", 0], ["sdef", 0], ["bdef", 1], ["svel", 1]]]
        return [Histories("one-frame", "v5x5", cells, 1, ops_for(1, ["bdef", "btau", "bang"], ["sdef", "slsq", "slin", "sfix"]), 3, r1),
                Histories("two-frames", "v5x5", cells, 2, ops_for(2, ["bdef", "bang"], ["sdef", "svel"]), 3),
                Histories("two-frames-from-solved", "v5x5", cells, 2, ops_for(2, ["bdef", "bang"], ["sdef", "svel", "sfix"]), 2, r2), spelled,
                LongSequences("long-sequences-d1", h2, PIPELINES, alts_q, 1)]
    r1 = [[["bdef", 0], ["sdef", 0]], [["bang", 0], ["sdef", 0], ["pbuild", 0], ["psolve", 0]]]
    r2 = [[["bdef", 0], ["sdef", 0], ["bdef", 1], ["svel", 1]]]
    return [Histories("one-frame", "v5x5", cells, 1, ops_for(1, ["bdef", "btau", "bang"], ["sdef", "slsq", "slin", "sfix", "sneg"]), 4, r1),
            Histories("two-frames", "v5x5", cells, 2, ops_for(2, ["bdef", "bang", "btau"], ["sdef", "svel", "sfix", "slin"]), 3, r2),
            Histories("three-frames", "v5x5", cells, 3, ops_for(3, ["bdef", "bang"], ["sdef", "svel"]), 2, r2), spelled,
            LongSequences("long-sequences-d1", h2, PIPELINES, alts_t, 1), LongSequences("long-sequences-d2", h2, PIPELINES[:1], alts_q, 2)]
