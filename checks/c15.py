"""C15 — skeleton images are parsed into the tissue's true topology.

Rasterised Voronoi tissues (reference rasteriser: Bresenham ridges, Zhang-Suen thinning, simple-point removal) and the
shipped skeleton are read through Skeleton -> create_lattice -> generate_mesh -> Frame under every symmetry of the
square x padding x mirror_y x ne. States = (image, variant); transitions = one symmetry / padding / mirror / ne change;
every state is compared with the generating Voronoi topology, every transition must preserve cell count, adjacency,
junction count and mesh consistency.
"""
import os
import shutil
import tempfile

import numpy as np

from fsmc import tissue as T, fsutil
from fsmc.explorer import ProductSystem
from fsmc.ref import raster as RR, mesh as RM

REPO = os.environ.get("FORSYS_REPO", "/repo")
PID = "C15"
RULE = ("states = (rasterised tissue or shipped image, one of 8 symmetries, padding, mirror_y, ne); "
        "non-trivial = at least two cells; classes = (image, symmetry, padding, mirror, ne)")
BOUND = {"quick": "5 rasterised tissues (square, landscape, portrait, seeded, short ridges) x 8 symmetries x 3 paddings x 2 mirror x ne 3..9, deviation bound 3 (for ne = 3, 6, 9 without mirroring the judged lattice is the second one parsed from the same Skeleton object); 3 shipped skeletons x 8 symmetries x 2 mirror x 2 paddings x ne {6,7}, deviation bound 2",
         "thorough": "8 rasterised tissues, deviation bound 3 over symmetry x padding x mirror x ne 3..9; all 7 shipped skeletons, deviation bound 3"}
ASSUMPTIONS = ["images obey the quantifier's filters (ridges longer than 8 px, junction angles above 25 degrees) - candidates that do not are skipped when the alphabet is built",
               "parsed cells are matched to regions through the pixel under their centroid (regions are convex)",
               "for the shipped skeleton only the invariance part applies (no ground truth)"]
REQUIRED_TAGS = {"all": ["truth_checked", "mirror_y", "padded", "landscape", "portrait", "symmetry", "shipped"]}

SHIPPED = [REPO + "/tests/data/experimental/exp_1.tif", REPO + "/examples/data/in_vivo/t_1.tif", REPO + "/examples/data/in_vivo/t_3.tif",
           REPO + "/tests/data/test_nonzero.tif", REPO + "/examples/data/in_vivo/t_0.tif", REPO + "/examples/data/in_vivo/t_2.tif", REPO + "/examples/data/in_vivo/t_4.tif"]
SYMS = ["id", "flipud", "fliplr", "T", "rot90", "rot180", "rot270", "antiT"]
PADS = [[0, 0], [3, 3], [5, 11]]


def apply_sym(a, s):
    if s == "id":
        return a
    if s == "flipud":
        return np.flipud(a)
    if s == "fliplr":
        return np.fliplr(a)
    if s == "T":
        return a.T
    if s == "rot90":
        return np.rot90(a)
    if s == "rot180":
        return np.rot90(a, 2)
    if s == "rot270":
        return np.rot90(a, 3)
    return np.rot90(a, 2).T


_TMP = None


def tmpdir():
    global _TMP
    if _TMP is None or not os.path.isdir(_TMP):
        _TMP = tempfile.mkdtemp(prefix="c15_")
        import atexit
        atexit.register(shutil.rmtree, _TMP, True)
    return _TMP


def make_image(spec):
    """spec = [nx, ny, jitter*100, pattern, scale]: first pattern >= given whose raster obeys the filters"""
    import scipy.ndimage as ndi
    nx, ny, jit, pat, scale = spec[:5]
    short = len(spec) > 5 and spec[5]      # ask for a tissue whose shortest ridge is barely above the 8 px of the quantifier
    for p in range(pat, pat + 200):
        sites = T.hex_sites(nx, ny, jit / 100.0, p)
        img, topo = RR.raster(sites, scale)
        if topo["minridge"] <= 8.5 or topo["cells"] < 2:
            continue
        if short and topo["minridge"] > 10.5:
            continue
        # label image: region id under every background pixel (0 = outside / skeleton)
        lab, n = ndi.label(img == 0)
        L = np.zeros(img.shape, np.int32)
        ok = True
        for si, (cx, cy) in topo["centres"].items():
            l = lab[int(round(cy)), int(round(cx))]
            if l == 0 or (L == si + 1).any():
                ok = False
                break
            L[lab == l] = si + 1
        if not ok or n != topo["cells"] + 1:
            continue
        return img, topo, L
    raise RuntimeError("no raster obeying the filters for %s" % (spec,))


def parse(img, mirror_y, ne):
    """returns observation dict (cells as centroids in image coordinates)"""
    import forsys as fs
    from PIL import Image
    full = np.zeros((img.shape[0] + 4, img.shape[1] + 4), np.uint8)
    full[2:-2, 2:-2] = img * 255
    full[0, :] = 255
    full[-1, :] = 255
    full[:, 0] = 255
    full[:, -1] = 255
    path = os.path.join(tmpdir(), "s_%d.tif" % os.getpid())
    Image.fromarray(full).convert("RGB").save(path)
    try:
        with fsutil.quiet():
            # mirror_y=False is the default: left out for odd ne, spelled out for even ne (both must parse to the same truth)
            sk = fs.skeleton.Skeleton(path) if (not mirror_y and ne % 2) else fs.skeleton.Skeleton(path, mirror_y=mirror_y)
            v, e, c = sk.create_lattice()
            if not mirror_y and ne % 3 == 0:
                # a user who tries several resampling levels parses the same Skeleton object again (generate_mesh consumes the
                # lattice): for ne = 3, 6, 9 the judged lattice is the SECOND one the object produces
                fs.virtual_edges.generate_mesh(v, e, c, ne=4)
                v = e = c = None
                v, e, c = sk.create_lattice()
            n0 = len(c)
            border = {cid for cid, cc in c.items() if cc.is_border}
            v, e, c, _ = fs.virtual_edges.generate_mesh(v, e, c, ne=ne)
            prob = RM.check_mesh(v, e, c)
            fr = fs.frames.Frame(0, v, e, c)
    finally:
        os.remove(path)
    cent = {}
    for cid, cc in c.items():
        x = float(np.mean([w.x for w in cc.vertices]))
        y = float(np.mean([w.y for w in cc.vertices]))
        if mirror_y:
            y = sk.max_y - y
        # parser coordinates are those of the image cropped by one pixel; `img` sits at offset 2 in the full image
        cent[cid] = (x + 1 - 2, y + 1 - 2)
    pairs = [tuple(sorted(be.own_cells)) for be in fr.internal_big_edges]
    adj = set()
    for w in v.values():
        pass
    seg = {}
    for cid, cc in c.items():
        ids = [w.id for w in cc.vertices]
        for i in range(len(ids)):
            seg.setdefault(frozenset((ids[i], ids[(i + 1) % len(ids)])), set()).add(cid)
    for cs in seg.values():
        for a in cs:
            for b in cs:
                if a < b:
                    adj.add((a, b))
    nj = sum(1 for w in v.values() if len(w.ownCells) >= 3)
    return {"n0": n0, "cells": sorted(c), "cent": cent, "border": sorted(border & set(c)), "internal": pairs, "adj": sorted(adj), "junctions": nj, "problems": prob}


class Images(ProductSystem):
    chunk = 2

    def __init__(self, specs, bound, nes, shipped=(), pads=None, name="skeleton-images"):
        self.name = name
        self.pads = pads or PADS
        self.specs = specs
        self.bound = bound
        self.nes = nes
        self.shipped = list(shipped)
        self.cache = {}
        for i, sp in enumerate(specs):
            self.cache[i] = make_image(sp)

    def bases(self):
        return list(range(len(self.specs))) + ["shipped:%d" % i for i in range(len(self.shipped))]

    def axes(self, base):
        return {"sym": SYMS, "mirror": [False, True], "pad": self.pads, "ne": self.nes}

    def full_product_axes(self):
        return ("sym", "mirror")

    def eval_config(self, base, cfg):
        tags, viol = [], []
        if isinstance(base, str):
            tags.append("shipped")
            from PIL import Image
            with Image.open(self.shipped[int(base.split(":")[1])]).convert("L") as im:
                arr = (np.array(im) > 127).astype(np.uint8)[2:-2, 2:-2]
            img, topo, L = arr, None, None
        else:
            img, topo, L = self.cache[base]
        a = np.ascontiguousarray(apply_sym(img, cfg["sym"]))
        pt, pl = cfg["pad"]
        a = np.pad(a, ((pt, 2), (pl, 1)))
        if L is not None:
            Lt = np.pad(np.ascontiguousarray(apply_sym(L, cfg["sym"])), ((pt, 2), (pl, 1)))
        if cfg["sym"] != "id":
            tags.append("symmetry")
        if cfg["mirror"]:
            tags.append("mirror_y")
        if pt or pl:
            tags.append("padded")
        tags.append("landscape" if a.shape[1] > a.shape[0] else "portrait")
        obs, ex = fsutil.call(parse, a, cfg["mirror"], cfg["ne"])
        if ex is not None:
            return {"viol": [{"what": "parsing / resampling / frame construction raised", "detail": fsutil.exc_str(ex)}], "tags": tags, "cls": "exc", "obs": None}
        if obs["problems"]:
            viol.append({"what": "mesh after parsing and resampling is inconsistent", "detail": obs["problems"][:3]})
        summary = {"cells": len(obs["cells"]), "adj": len(obs["adj"]), "junctions": obs["junctions"], "internal": len(obs["internal"]), "border": len(obs["border"])}
        if topo is not None:
            tags.append("truth_checked")
            site = {}
            for cid, (x, y) in obs["cent"].items():
                xi, yi = int(round(x)), int(round(y))
                s = Lt[yi, xi] if 0 <= yi < Lt.shape[0] and 0 <= xi < Lt.shape[1] else 0
                site[cid] = int(s) - 1
            if len(obs["cells"]) != topo["cells"] or sorted(site.values()) != sorted(topo["centres"]):
                viol.append({"what": "parsed cells are not one per enclosed region", "detail": {"cells": len(obs["cells"]), "regions": topo["cells"], "unmatched": sorted(set(topo["centres"]) - set(site.values()))[:5]}})
            else:
                b = sorted(site[c] for c in obs["border"])
                if b != topo["border"]:
                    viol.append({"what": "border flags are not exactly the cells that touch the outside", "detail": {"got": b, "exp": topo["border"]}})
                badp = [list(x) for x in obs["internal"] if len(x) != 2]
                if badp:
                    viol.append({"what": "an internal interface does not separate exactly two cells", "detail": badp[:3]})
                ip = sorted(tuple(sorted((site[x[0]], site[x[1]]))) for x in obs["internal"] if len(x) == 2)
                if ip != [tuple(x) for x in topo["internal"]]:
                    viol.append({"what": "internal interfaces are not exactly the pairs of regions whose common boundary ends in an interior junction",
                                 "detail": {"extra": [x for x in ip if list(x) not in [list(y) for y in topo["internal"]]][:5],
                                            "missing": [x for x in topo["internal"] if tuple(x) not in ip][:5]}})
                adj = sorted(tuple(sorted((site[a_], site[b_]))) for a_, b_ in obs["adj"])
                if adj != [tuple(x) for x in topo["pairs"]]:
                    viol.append({"what": "cell adjacency differs from the regions that share a boundary line", "detail": {"got": len(adj), "exp": len(topo["pairs"])}})
                if obs["junctions"] != topo["junctions"]:
                    viol.append({"what": "number of junctions shared by three cells differs from the drawing", "detail": {"got": obs["junctions"], "exp": topo["junctions"]}})
        cls = "%s/%s/%s/%s/%s" % (base, cfg["sym"], cfg["mirror"], cfg["pad"], cfg["ne"])
        return {"viol": viol, "tags": tags, "cls": cls, "obs": summary, "nontrivial": summary["cells"] >= 2}

    def check_pair(self, base, axis, cfg1, r1, cfg2, r2):
        if not r1.get("obs") or not r2.get("obs"):
            return [], []
        a, b = r1["obs"], r2["obs"]
        keys = ["cells", "adj", "junctions", "internal", "border"] if axis != "ne" else ["cells", "adj", "junctions", "internal"]
        diff = {k: [a[k], b[k]] for k in keys if a[k] != b[k]}
        if diff:
            return [{"what": "[%s changed] cell count / adjacency / junction count of the same image differ" % axis, "detail": diff}], []
        return [], []


def build(tier, seed):
    if tier == "quick":
        specs = [[5, 5, 15, 0, 40], [8, 3, 15, 1, 36], [3, 8, 15, 2, 44], [5, 4, 20, seed + 3, 50], [5, 4, 30, 0, 36, True]]
        return [Images(specs, 3, [6, 3, 4, 5, 7, 8, 9]),
                Images([], 2, [6, 7], shipped=SHIPPED[:3], pads=PADS[:2], name="shipped-skeletons")]
    specs = [[5, 5, 15, 0, 40], [8, 3, 15, 1, 36], [3, 8, 15, 2, 44], [5, 4, 20, seed + 3, 50], [6, 6, 10, 4, 60], [9, 4, 20, 5, 38], [4, 4, 25, 6, 90], [7, 7, 15, 7, 35]]
    return [Images(specs, 3, [6, 3, 4, 5, 7, 8, 9]),
            Images([], 3, [6, 3, 4, 7, 9], shipped=SHIPPED, name="shipped-skeletons")]
