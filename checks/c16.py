"""C16 — angle-limit exclusion drops exactly the flagged interfaces and solves the rest.

The exclusion set is a step function of the limit; its breakpoints are the junctions' widest opening angles.
For every tissue the limits {inf, pi, above the largest breakpoint, every midpoint between consecutive
breakpoints, below the smallest, pi/2} enumerate EVERY distinct behaviour of the parameter (a limit exactly on a
breakpoint is float-undecidable and not generated). States = (tissue, limit, mode, back-end); transitions lower
the limit to the next value (exclusion set must grow monotonically) or switch mode / back-end.
"""
import cmath
import itertools
import math

import numpy as np

from fsmc import bases, tissue as T, fsutil, solvecase as SC
from fsmc.ref import nnls as RN, tangent as RT

PID = "C16"
RULE = ("states = (tissue, angle limit between consecutive breakpoints, static|velocity, default|lsq ones|lsq ramp); "
        "non-trivial = at least one interface excluded and at least one kept; classes = (tissue, excluded set size, mode, back-end)")
BOUND = {"quick": "11 tissues (two of them handed over as a series with cm=True, so that the frames are re-centred in place after their interfaces were built; curved equilibrium, deformed, jittered 4-fold lattices, seeded, three with a lens cell: as built and with a neighbour of the lens stored clockwise, so that two inferred interfaces run between the same junctions in the same direction) x all inter-breakpoint limits x 2 modes x 3 back-ends",
         "thorough": "15 tissues x all inter-breakpoint limits x 2 modes x 3 back-ends"}
ASSUMPTIONS = ["junction opening angles are taken from the library's own public versors (get_versor_from_vertex); their accuracy is C02's subject. They are cross-checked against analytic angles away from breakpoints",
               "a limit exactly equal to an opening angle is not generated"]
REQUIRED_TAGS = {"all": ["excluded_some", "excluded_all", "excluded_none", "lsq_with_exclusions", "velocity", "fourfold", "restricted_unique", "default_after_strict_limit"]}


def jitter_square(n, amp, pattern):
    polys = []
    def P(i, j):
        u = math.modf(math.sin((i * 7 + j * 13 + 1) * 12.9898 + pattern * 78.233) * 43758.5453)[0]
        v = math.modf(math.sin((i * 11 + j * 5 + 1) * 39.3468 + pattern * 11.135) * 24634.6345)[0]
        return (i + amp * u, j + amp * v)
    for j in range(n):
        for i in range(n):
            polys.append([P(i, j), P(i + 1, j), P(i + 1, j + 1), P(i, j + 1)])
    return polys


_TISS = {}


def tissue(spec):
    key = fsutil.state_hash(spec)
    if key not in _TISS:
        if spec[0] == "v":
            at = bases.get(spec[1])
        else:
            at = T.polygons_at(jitter_square(spec[1], spec[2], spec[3]))
        _TISS[key] = at
    return _TISS[key]


def build_pair(spec):
    """two-frame series (for the velocity mode) of the tissue; returns (forsys, info, at, cm)"""
    at = tissue(spec)
    ext = SC.extent_of(at)
    mob = spec[4] if spec[0] == "sq" else spec[2]
    noise = spec[5] if spec[0] == "sq" else spec[3]
    cm = SC.make_cmap(mob, 0.3, (0, 0), 1.0, ext)
    post0 = SC.noise_post(noise, 1) if noise else None
    p1 = SC.noise_post(0.012, 3)
    post1 = p1 if post0 is None else (lambda j, i: p1(*post0(j, i)))
    lab = None
    if spec[0] == "v" and len(spec) > 4 and spec[4] == "flip_lens_neighbour":
        # one of the two cells beside the lens cell (largest id) is stored in the opposite rotational sense: the direction in which an
        # interface is stored follows the cell it is first met in, so both sides of the lens then run from the same junction to the same junction
        lens = sorted(at["C"], key=int)[-1]
        nb = [it["R"] for it in at["I"] if it["L"] == lens and it["R"] is not None]
        lab = {"flips": nb[:1]}
    use_cm = False
    if "cm" in spec[4:]:
        # the series is handed over with cm=True: ForSys re-centres every frame in place AFTER the Frames (and their interfaces)
        # were built; the tissue sits away from the origin so that the shift is large
        use_cm = True
        cm = SC.make_cmap(mob, 0.3, (3.0, -2.0), 1.0, ext)
    s, infos, ex = SC.build_series([{"at": at, "k": 3, "cmap": cm, "post": post0, "time": 0.0, "lab": lab},
                                    {"at": at, "k": 3, "cmap": cm, "post": post1, "time": 0.4, "lab": lab}], cm=use_cm)
    if use_cm:
        # the reference geometry is the re-centred one (the shift is the all-vertex mean, rounded to 3 decimals, read from the frame)
        import numpy as _np
        j0 = next(iter(infos[0]["jvid"]))
        zlib = complex(s.frames[0].vertices[infos[0]["jvid"][j0]].x, s.frames[0].vertices[infos[0]["jvid"][j0]].y)
        shift = zlib - cm(T.zc(at["J"][j0])) if post0 is None else None
        if shift is not None:
            cm = T.CMap(list(cm.ops) + [T.aff(1.0, shift)])
    if ex is not None:
        raise RuntimeError("series construction failed: %s" % ex)
    s._harness_info1 = infos[1]
    return s, infos[0], at, cm


def junction_angles(frame, fit="dlite"):
    """widest opening between any two interface directions at every end junction of an internal interface,
    from the library's public versors"""
    out = {}
    ends = set()
    for be in frame.internal_big_edges:
        ids = be.get_vertices_ids()
        ends.add(ids[0])
        ends.add(ids[-1])
    for vid in ends:
        v = frame.vertices[vid]
        vs = []
        for beid in v.own_big_edges:
            with fsutil.quiet():
                w = frame.big_edges[beid].get_versor_from_vertex(vid, fit_method=fit)
            vs.append(complex(w[0], w[1]))
        best = 0.0
        with fsutil.ref_math():
            for a, b in itertools.combinations(vs, 2):
                d = (a.real * b.real + a.imag * b.imag)
                best = max(best, math.acos(max(-1.0, min(1.0, d))))
        out[vid] = best
    return out


def limits_for(spec):
    s, info, at, cm = build_pair(spec)
    ang = sorted(set(round(a, 9) for a in junction_angles(s.frames[0]).values()))
    lims = [float("inf"), math.pi]
    bp = [a for a in ang]
    if bp:
        if bp[-1] < math.pi - 1e-6:
            lims.append((bp[-1] + math.pi) / 2)
        for a, b in zip(bp[:-1], bp[1:]):
            if b - a > 1e-6:
                lims.append((a + b) / 2)
        lims.append(bp[0] - 0.05)
    lims.append(math.pi / 2)
    lims = sorted(set(lims), reverse=True)
    # drop limits too close to a breakpoint (undecidable)
    lims = [l for l in lims if all(abs(l - a) > 1e-7 for a in bp)]
    return lims


MODES = ["static", "velocity"]
BACK = ["default", "lsq1", "lsqramp"]


class Limits:
    chunk = 2

    def __init__(self, specs):
        self.name = "angle-limits"
        self.specs = specs
        self._lims = {}
        self.bound = 200

    def lims(self, ti):
        if ti not in self._lims:
            self._lims[ti] = limits_for(self.specs[ti])
        return self._lims[ti]

    def initial(self):
        return [{"t": ti, "l": 0, "m": 0, "b": 0} for ti in range(len(self.specs))]

    def actions(self, d):
        acts = []
        if d["l"] + 1 < len(self.lims(d["t"])) and d["m"] == 0 and d["b"] == 0:
            acts.append(["lower"])
        if d["m"] == 0 and d["b"] == 0:
            acts += [["mode", 1], ["back", 1], ["back", 2]]
        if d["m"] == 1 and d["b"] == 0:
            acts += [["back", 1]]
        return acts

    def step(self, d, a):
        d2 = dict(d)
        if a[0] == "lower":
            d2["l"] += 1
        elif a[0] == "mode":
            d2["m"] = a[1]
        else:
            d2["b"] = a[1]
        return d2

    def evaluate(self, d):
        spec = self.specs[d["t"]]
        limit = self.lims(d["t"])[d["l"]]
        mode, back = MODES[d["m"]], BACK[d["b"]]
        s, info, at, cm = build_pair(spec)
        fr = s.frames[0]
        viol, known, tags = [], [], []
        internal = [be.get_vertices_ids() for be in fr.internal_big_edges]
        ang = junction_angles(fr)
        flagged = {vid for vid, a in ang.items() if a >= limit}
        exp_excl = [i for i, ids in enumerate(internal) if ids[0] in flagged and ids[-1] in flagged]
        # cross-check of the library-derived angles against analytic ones, away from breakpoints
        jid_of = {vid: j for j, vid in info["jvid"].items()}
        noise = spec[5] if spec[0] == "sq" else spec[3]
        if not noise:
            tg = T.tangents(at, cm)
            per_j = {}
            for ii, it in enumerate(at["I"]):
                per_j.setdefault(it["a"], []).append(tg[ii][0])
                per_j.setdefault(it["b"], []).append(tg[ii][1])
            internal_set = set(T.internal_interfaces(at))
            interior = {j for j in at["J"] if all(ii in internal_set for ii, it in enumerate(at["I"]) if j in (it["a"], it["b"]))}
            for vid, a in ang.items():
                if jid_of[vid] not in interior:
                    continue     # border interfaces merge into polylines that are no arcs; their fitted direction is not analytic
                ts = per_j[jid_of[vid]]
                ref = max(abs(cmath.phase(x / y)) for x, y in itertools.combinations(ts, 2))
                if abs(ref - a) > 0.15:
                    viol.append({"what": "widest opening at a junction (from the library's versors) is far from the analytic value", "detail": {"junction": jid_of[vid], "lib": a, "analytic": ref}})
        # ---- full system for reference
        _, ex = fsutil.call(s.build_force_matrix, when=0, angle_limit=np.inf)
        if ex is not None:
            return {"viol": [{"what": "build_force_matrix raised without limit", "detail": fsutil.exc_str(ex)}], "tags": [], "cls": "exc"}
        fm_inf = s.force_matrices[0]
        M_inf = np.array(fm_inf.matrix, float)
        rows_inf = dict(fm_inf.map_vid_to_row)
        if [list(x) for x in fm_inf.big_edges_to_use] != [list(x) for x in internal]:
            viol.append({"what": "without a limit some internal interface is not an unknown"})
        # ---- limited system
        kw = {} if limit == float("inf") else {"angle_limit": limit}
        if limit == math.pi:
            kw = {}     # ForSys default
        if not kw:
            # the call that relies on the default limit comes right after a build with the strictest explicit limit of this tissue
            # (same object, no explicit options in between): an earlier limit must not stick
            strict = min(x for x in self.lims(d["t"]) if x < math.pi)
            fsutil.call(s.build_force_matrix, when=0, angle_limit=strict)
            tags.append("default_after_strict_limit")
        _, ex = fsutil.call(s.build_force_matrix, when=0, **kw)
        if ex is not None:
            return {"viol": [{"what": "build_force_matrix raised", "detail": fsutil.exc_str(ex)}], "tags": [], "cls": "exc"}
        fm = s.force_matrices[0]
        kept = [i for i in range(len(internal)) if i not in exp_excl]
        if [list(x) for x in fm.big_edges_to_use] != [list(internal[i]) for i in kept]:
            got = [internal.index(list(x)) if list(x) in internal else None for x in fm.big_edges_to_use]
            viol.append({"what": "interfaces kept as unknowns are not exactly those not excluded by the limit",
                         "detail": {"limit": limit, "kept": got[:40], "expected_excluded": exp_excl[:40]}})
        if limit in (float("inf"), math.pi) and exp_excl:
            tags.append("default_limit_exact_pi_undecidable")
        solve_kw = {}
        if mode == "velocity":
            solve_kw["b_matrix"] = "velocity"
            tags.append("velocity")
        if back != "default":
            solve_kw["method"] = "lsq"
            n = len(internal)
            solve_kw["initial_condition"] = np.ones(n) if back == "lsq1" else np.linspace(0.5, 1.5, n)
            if exp_excl:
                tags.append("lsq_with_exclusions")
        res, ex = fsutil.call(s.solve_stress, when=0, allow_negatives=False, **solve_kw)
        ncls = "%s/%d/%d/%s/%s" % (d["t"], len(exp_excl), len(internal), mode, back)
        if ex is not None:
            if back != "default" and exp_excl and len(kept) > 0:
                known.append({"id": "F12", "exc": fsutil.exc_str(ex), "limit": limit})
                return {"viol": viol, "known": known, "tags": tags, "cls": ncls, "obs": {"excl": exp_excl}}
            if len(kept) == 0 or fm.matrix.shape[0] == 0:
                tags.append("excluded_all")
                return {"viol": viol, "tags": tags + ["empty_system_raises_no_verdict"], "cls": ncls, "obs": {"excl": exp_excl}}
            viol.append({"what": "solve_stress raised", "detail": {"exc": fsutil.exc_str(ex), "limit": limit, "mode": mode, "back": back}})
            return {"viol": viol, "tags": tags, "cls": ncls, "obs": {"excl": exp_excl}}
        forces = [float(s.forces[0][i]) for i in range(len(s.forces[0]))]
        if len(forces) != len(internal):
            viol.append({"what": "result does not have one position per internal interface", "detail": {"len": len(forces), "internal": len(internal)}})
            return {"viol": viol, "tags": tags, "cls": ncls, "obs": {"excl": exp_excl}}
        got_excl = [i for i, f in enumerate(forces) if f == -1]
        if got_excl != exp_excl:
            viol.append({"what": "positions reported as -1 are not exactly the excluded interfaces", "detail": {"got": got_excl[:40], "exp": exp_excl[:40], "limit": limit}})
        if not exp_excl:
            tags.append("excluded_none")
        elif len(kept) == 0:
            tags.append("excluded_all")
        else:
            tags.append("excluded_some")
        if any(len(at["I"]) and False for _ in ()):
            pass
        if spec[0] == "sq":
            tags.append("fourfold")
        # ---- other positions = solution of the restricted system
        with fsutil.ref_math():
            if kept and fm.matrix.shape[0] > 0:
                keep_rows = []
                for vid, r0 in rows_inf.items():
                    nz = sum(1 for c in kept if M_inf[r0, c] != 0 or M_inf[r0 + 1, c] != 0)
                    if nz >= 3:
                        keep_rows.append((vid, r0))
                # same junction set is checked below; rows are laid out in the order the library chose for its own matrix
                if set(v_ for v_, _ in keep_rows) == set(fm.map_vid_to_row):
                    keep_rows.sort(key=lambda vr: fm.map_vid_to_row[vr[0]])
                Mr = np.zeros((2 * len(keep_rows), len(kept)))
                b = np.zeros(2 * len(keep_rows))
                vel = np.array(fm.velocity_matrix, float).ravel() if fm.velocity_matrix is not None else None
                for n, (vid, r0) in enumerate(keep_rows):
                    Mr[2 * n] = M_inf[r0, kept]
                    Mr[2 * n + 1] = M_inf[r0 + 1, kept]
                    if vel is not None and vid in fm.map_vid_to_row:
                        rr = fm.map_vid_to_row[vid]
                        b[2 * n], b[2 * n + 1] = vel[rr], vel[rr + 1]
                if vel is not None and mode == "velocity":
                    # the right-hand side itself, against the generated motion: every junction that keeps its equations carries
                    # its own velocity (displacement to the next frame / elapsed time, rounded to 3 decimals), flagged or not
                    info1 = s._harness_info1
                    for vid, rr in fm.map_vid_to_row.items():
                        j = jid_of.get(vid)
                        if j is None:
                            continue
                        w0 = s.frames[0].vertices[vid]
                        w1 = s.frames[1].vertices[info1["jvid"][j]]
                        tv = ((w1.x - w0.x) / 0.4, (w1.y - w0.y) / 0.4)
                        if abs(vel[rr] - tv[0]) > 5.1e-4 or abs(vel[rr + 1] - tv[1]) > 5.1e-4:
                            viol.append({"what": "with an angle limit the velocity term of a junction that keeps its equations is not its own velocity",
                                         "detail": {"junction": j, "flagged": vid in flagged, "rhs": [float(vel[rr]), float(vel[rr + 1])], "velocity": list(tv), "limit": limit}})
                            break
                    tags.append("velocity_rhs_checked")
                if set(v for v, _ in keep_rows) != set(fm.map_vid_to_row):
                    viol.append({"what": "junction equations of the restricted system differ from 'junctions with three or more remaining interfaces'",
                                 "detail": {"got": sorted(fm.map_vid_to_row)[:30], "exp": sorted(v for v, _ in keep_rows)[:30]}})
                else:
                    A, rhs = RN.augment(Mr, b)
                    rec = getattr(fm, "_verif_record", None)
                    if rec is None or rec["A"].shape != A.shape or np.abs(rec["A"] - A).max() > 1e-12 or np.abs(rec["b"] - rhs).max() > 5.6e-4:
                        viol.append({"what": "the system that was solved is not the force-balance system restricted to the remaining interfaces (plus the mean-one row)",
                                     "detail": {"shape_solved": None if rec is None else list(rec["A"].shape), "shape_expected": list(A.shape)}})
                        rec = None
                    else:
                        rhs = rec["b"]     # the rounded right-hand side that was actually used
                    x = np.array([forces[i] for i in kept])
                    lam = RN.best_multiplier(A, rhs, x)
                    z = np.append(x, lam)
                    zr = RN.lawson_hanson(A, rhs)
                    Rx, Rr = np.linalg.norm(A @ z - rhs), np.linalg.norm(A @ zr - rhs)
                    if x.min() < -1e-9 or Rx ** 2 > Rr ** 2 * (1 + (1e-9 if back == "default" else 1e-4)) + (1e-6 if back == "default" else 1e-5 * len(x)) ** 2:
                        cr0 = RN.kkt(A, rhs, z, 1e-5)
                        stuck = [i for i in range(len(z)) if z[i] <= 1e-4 and cr0["g"][i] < -1e-5]
                        if back != "default" and stuck:
                            tags.append("lsq_sticky_bound(F20)")
                        else:
                            viol.append({"what": "kept positions do not hold the non-negative least-squares solution of the system restricted to the remaining interfaces",
                                         "detail": {"R_x": float(Rx), "R_opt": float(Rr), "limit": limit, "mode": mode, "back": back}})
                    cr = RN.kkt(A, rhs, zr, 1e-8 * max(1, len(zr)))
                    if cr["ok"] and RN.unique_minimiser(A, zr, cr["g"], 1e-7) and back == "default":
                        tags.append("restricted_unique")
                        if np.abs(zr[:-1] - x).max() > 1e-6:
                            viol.append({"what": "kept positions differ from the unique solution of the restricted system", "detail": float(np.abs(zr[:-1] - x).max())})
        return {"viol": viol, "known": known, "tags": sorted(set(tags)), "cls": ncls, "obs": {"excl": exp_excl},
                "nontrivial": bool(exp_excl) and bool(kept)}

    def check_edge(self, d, a, d2, r, r2):
        if a[0] == "lower" and r.get("obs") and r2.get("obs"):
            if not set(r["obs"]["excl"]) <= set(r2["obs"]["excl"]):
                return [{"what": "lowering the angle limit removed an interface from the exclusion set", "detail": {"before": r["obs"]["excl"], "after": r2["obs"]["excl"]}}], []
        if a[0] in ("mode", "back") and r.get("obs") and r2.get("obs") and r["obs"]["excl"] != r2["obs"]["excl"]:
            return [{"what": "exclusion set depends on the mode / back-end"}], []
        return [], []


def build(tier, seed):
    M = ["m", 0.05, 0.02]
    specs = [["v", "v5x5", M, 0.0], ["v", "v5x5", M, 0.08], ["sq", 4, 0.25, seed + 1, ["id"], 0.0], ["v", "v4x4p%d" % (seed + 1), ["mc", 0.12, 0.05], 0.0]]
    specs += [["v", "v6x5", M, 0.0], ["sq", 3, 0.2, seed + 3, ["m", 0.03, 0.0], 0.0]]
    # tissues with a lens cell: two internal interfaces run between the same two junctions
    specs += [["v", "v5x5+lens0", M, 0.0], ["v", "v6x5+lens5", ["mc", 0.12, 0.05], 0.05, "flip_lens_neighbour"], ["v", "v5x5+lens0", M, 0.0, "flip_lens_neighbour"]]
    # series handed over with cm=True (frames re-centred in place after their interfaces were built): straight and curved tissue
    specs += [["v", "v5x5", ["id"], 0.0, "cm"], ["v", "v5x5", M, 0.0, "cm"]]
    if tier == "thorough":
        specs += [["v", "v6x6", ["id"], 0.05], ["sq", 5, 0.3, seed + 2, ["id"], 0.03], ["v", "v7x6", M, 0.0],
                  ["v", "v6x5", ["mc", 0.12, 0.05], 0.15]]
    return [Limits(specs)]
