"""C12 — vertex tracking between frames is injective and follows small motions.

Two explorations on the real TimeSeries:
 * lattice fields: every assignment of a displacement from {0, delta e^{i pi j/4}} (9 values; delta = 0.95 / 0.4 of the binding bound) to four neighbouring
   junctions (9^4 = 6561 fields per delta), all other junctions at rest;
 * series: deviation-bounded product of (motion type, amplitude level just inside each bound, series length 2..6,
   per-frame renumbering, cm on/off, partial initial_guess: none | one true pair | one wrong but admissible pair).
Oracle per consecutive pair of frames: keys/values are interface end points, injective, guess honoured, and - inside
the statement's bounds - every junction maps to its true successor and forward-then-backward returns the start.
"""
import cmath
import math

import numpy as np

from fsmc import bases, tissue as T, fsutil, solvecase as SC
from fsmc.explorer import ProductSystem, ListSystem

PID = "C12"
RULE = ("states = displacement fields on a lattice of 9 values per junction (4 junctions), and series configurations within the deviation bound; "
        "non-trivial = some junction moves; classes = (field signature | motion, level, length, renumbering, cm, guess)")
BOUND = {"quick": "all 9^4 lattice fields (4 mutually neighbouring junctions x rest / 8 directions) at 0.95 and 0.4 of the binding displacement bound on a compact base and at 0.95 on a 20-cell base, each under 4 combinations of (numbering, storage order) of the two frames; on a hexagonal lattice 9.5 spacings wide all 13 x 5^3 bond-aligned fields (central junction along its bonds, neighbours towards / away from it, two magnitudes) under the same 4 combinations; series product (motion, level, length, numbering, cm, guess, length unit) with deviation bound 2; wherever the round trip is judged, get_vertex_position (the trajectory query, over all frames and with an explicit last frame) must visit the true successor in every frame",
         "thorough": "compact base under 9 numbering combinations, 20-cell base under 4; bond-aligned fields with 5 magnitudes (31 x 11^3) on one hexagonal lattice and 2 magnitudes on two more (one curved); series product with deviation bound 3"}
ASSUMPTIONS = ["bounds of the statement are evaluated on the generated geometry: displacement < 0.5 x smallest junction spacing (both frames), < 8% of the extent "
               "of the interface end points of both frames, bounding-box shape change < 10% of that extent; instances outside give no verdict"]
REQUIRED_TAGS = {"all": ["inside_bounds", "outside_bounds", "renumbered", "cm", "guess_true", "guess_wrong", "len>2", "roundtrip_checked", "binding:spacing", "binding:extent", "large_length_unit", "small_length_unit", "guess_shared_empty", "trajectory_checked"]}

VMAPS = [["id"], ["rev"], ["gap", 3, 7], ["off", 10 ** 6], ["rot", 5], ["swap0"], ["stored_rev"]]


def tissue_for(base, cells):
    at = bases.get(base)
    return T.sub_tissue(at, cells) if cells else at


def junction_positions(at, cm):
    return {j: cm(T.zc(p)) for j, p in at["J"].items()}


def real_junctions(at):
    """abstract junctions that are interface end points in forsys' sense (degree >= 3)"""
    deg = T.junction_degree(at)
    return [j for j in sorted(at["J"], key=int) if deg[j] >= 3]


def build_frames(at, cm, fields, vmaps, k=1):
    """fields: list (per frame) of {jid: complex displacement from the reference position}"""
    spec = []
    real = real_junctions(at)
    jsorted = sorted(at["J"], key=int)
    zero_j = jsorted.index(real[len(real) // 2])      # "swap0": id 0 sits on an interface end point
    adj = T.cell_adjacency(at)
    loose = [c for c in at["C"] if not adj[c]] if len(at["C"]) > 1 else []      # cells that touch no other cell
    for t, dz in enumerate(fields):
        vm = vmaps[t % len(vmaps)]
        vorder = None
        if isinstance(vm, dict):
            # {"vmap": ids, "vorder": order in which the vertices are stored} - the tracker scans candidates in storage order
            vm, vorder = vm["vmap"], vm.get("vorder")
        vm = ["swap", 0, zero_j] if vm == ["swap0"] else vm
        if vm == ["stored_rev"]:
            vm, vorder = ["rev"], "id"
        lab = {"vmap": vm, "vorder": vorder}
        if loose:
            # where a cell's stored cycle starts is arbitrary: a detached cell starts at another vertex in every frame
            lab["shifts"] = {c: (2 * t + 1) for c in loose}
        spec.append({"at": at, "k": k, "cmap": cm, "post": SC.displace_post(at, dz), "time": float(t), "lab": lab})
    return spec


def judge_pair(at, real, pos0, pos1, info0, info1, mapping, guess, viol, tags, frame0, frame1, margin=1e-9):
    """one consecutive pair; pos: {jid: complex}"""
    # interface end points by the statement's own definition (C08): vertices with three or more mesh edges - counted from the mesh
    # edges themselves, not read from the library's interface list
    def junction_vertices(frame):
        deg = {}
        for ed in frame.edges.values():
            deg[ed.v1.id] = deg.get(ed.v1.id, 0) + 1
            deg[ed.v2.id] = deg.get(ed.v2.id, 0) + 1
        return {vid for vid, n in deg.items() if n >= 3}
    ends0, ends1 = junction_vertices(frame0), junction_vertices(frame1)
    if mapping is None:
        return "none"
    for a, b in mapping.items():
        if a not in ends0:
            viol.append({"what": "a mapped vertex is not an interface end point of its frame", "detail": a})
            break
        if b is not None and b not in ends1:
            viol.append({"what": "a vertex is mapped to something that is not an interface end point of the next frame", "detail": [a, b]})
            break
    vals = [b for b in mapping.values() if b is not None]
    if len(set(vals)) != len(vals):
        dup = sorted({x for x in vals if vals.count(x) > 1})[:3]
        viol.append({"what": "two vertices are mapped to the same target", "detail": {"targets": dup, "sources": [a for a, b in mapping.items() if b in dup][:6]}})
    for a, b in (guess or {}).items():
        if mapping.get(a) != b:
            viol.append({"what": "a user-supplied pairing is not honoured", "detail": {"given": [a, b], "got": mapping.get(a)}})
    # bounds of the statement
    pr0 = [pos0[j] for j in real]
    pr1 = [pos1[j] for j in real]
    allp = pr0 + pr1
    ext = max(max(z.real for z in allp) - min(z.real for z in allp), max(z.imag for z in allp) - min(z.imag for z in allp))
    dmin = min(min(abs(a - b) for i, a in enumerate(P) for b in P[i + 1:]) for P in (pr0, pr1))
    disp = max(abs(pos1[j] - pos0[j]) for j in real)
    sh = math.hypot((max(z.real for z in pr1) - min(z.real for z in pr1)) - (max(z.real for z in pr0) - min(z.real for z in pr0)),
                    (max(z.imag for z in pr1) - min(z.imag for z in pr1)) - (max(z.imag for z in pr0) - min(z.imag for z in pr0)))
    # margin: with cm=True a frame in the middle of a series is re-centred a second time (rounding of its centre of mass)
    inside = disp < 0.5 * dmin * (1 - margin) - margin and disp < 0.08 * ext * (1 - margin) - margin and sh < 0.10 * ext * (1 - margin) - margin
    if inside and not guess:
        tags.append("inside_bounds")
        for j in real:
            a, b = info0["jvid"][j], info1["jvid"][j]
            if mapping.get(a) != b:
                viol.append({"what": "inside the bounds a junction is not mapped to its true successor",
                             "detail": {"junction": j, "from": a, "expected": b, "got": mapping.get(a), "disp/dmin": disp / dmin, "disp/ext": disp / ext}})
                break
    elif not inside:
        tags.append("outside_bounds")
    return "inside" if inside else "outside"


def run_series(at, cm, fields, vmaps, use_cm, guess_spec, viol, tags):
    real = real_junctions(at)
    spec = build_frames(at, cm, fields, vmaps)
    # positions
    base = junction_positions(at, cm)
    pos = [{j: base[j] + f.get(j, 0j) for j in base} for f in fields]
    # build frames first to know ids (guess needs them)
    s0, infos, ex = SC.build_series(spec, cm=use_cm)
    if ex is not None:
        viol.append({"what": "ForSys construction raised", "detail": fsutil.exc_str(ex)})
        return None
    guess = None
    ig = None
    if guess_spec[0] == "shared_empty":
        # the user passes ONE empty dict for every frame (dict.fromkeys(frames, {})): no pairing is supplied, so every frame pair
        # must be tracked exactly as without a guess
        ig = dict.fromkeys(range(len(fields)), {})
        s0, infos, ex = SC.build_series(spec, cm=use_cm, initial_guess=ig)
        if ex is not None:
            viol.append({"what": "ForSys construction with a shared empty initial_guess raised", "detail": fsutil.exc_str(ex)})
            return None
        tags.append("guess_shared_empty")
    elif guess_spec[0] != "none":
        j = real[guess_spec[1] % len(real)]
        if guess_spec[0] == "true":
            tgt = j
        else:
            # wrong but admissible: the successor of the nearest other junction
            tgt = min((x for x in real if x != j), key=lambda x: abs(base[x] - base[j]))
        guess = {infos[0]["jvid"][j]: infos[1]["jvid"][tgt]}
        ig = {t: {} for t in range(len(fields))}
        ig[0] = dict(guess)
        s0, infos, ex = SC.build_series(spec, cm=use_cm, initial_guess=ig)
        if ex is not None:
            viol.append({"what": "ForSys construction with initial_guess raised", "detail": fsutil.exc_str(ex)})
            return None
        tags.append("guess_true" if guess_spec[0] == "true" else "guess_wrong")
    ts = s0.mesh
    status = []
    if use_cm:
        # with cm=True the library re-centres every frame (all-vertex mean, rounded to 3 decimals) before tracking: the bounds of
        # the statement are evaluated on the coordinates the tracker actually sees
        pos = [{j: complex(s0.frames[t].vertices[infos[t]["jvid"][j]].x, s0.frames[t].vertices[infos[t]["jvid"][j]].y) for j in base} for t in range(len(fields))]
    for t in range(len(fields) - 1):
        st = judge_pair(at, real, pos[t], pos[t + 1], infos[t], infos[t + 1], ts.mapping.get(t), guess if t == 0 else None, viol, tags, s0.frames[t], s0.frames[t + 1],
                        margin=2e-3 if use_cm else 1e-9)
        status.append(st)
    # forward then backward over the whole series
    if all(x == "inside" for x in status) and guess is None:
        tags.append("roundtrip_checked")
        L = len(fields)
        for j in real:
            a = infos[0]["jvid"][j]
            fwd, ex = fsutil.call(ts.get_point_id_by_map, a, 0, L - 1)
            if ex is not None or fwd != infos[L - 1]["jvid"][j]:
                viol.append({"what": "following the correspondence forward does not reach the true successor", "detail": {"junction": j, "got": None if ex else fwd, "exc": fsutil.exc_str(ex) if ex else None}})
                break
            back, ex = fsutil.call(ts.get_point_id_by_map, fwd, L - 1, 0)
            if ex is not None or back != a:
                viol.append({"what": "following the correspondence forward and then backward does not return the starting vertex", "detail": {"start": a, "forward": fwd, "back": None if ex else back}})
                break
            # the trajectory query follows the same correspondence frame by frame: it must visit the true successor in every frame
            for tmax in ((-1, L) if L > 2 else (-1,)):
                with fsutil.quiet():
                    traj, ex = fsutil.call(ts.get_vertex_position, a, 0, tmax)
                nfr = L
                expd = [(s0.frames[t].vertices[infos[t]["jvid"][j]].x, s0.frames[t].vertices[infos[t]["jvid"][j]].y) for t in range(nfr)]
                ok = ex is None and len(traj[0]) == nfr and all(traj[0][t] == expd[t][0] and traj[1][t] == expd[t][1] for t in range(nfr))
                if not ok:
                    viol.append({"what": "get_vertex_position does not report the positions of the junction's true successors frame by frame",
                                 "detail": {"junction": j, "tmax": tmax, "exc": fsutil.exc_str(ex) if ex else None, "got": None if ex else [list(map(float, traj[0]))[:6], list(map(float, traj[1]))[:6]], "exp": expd[:6]}})
                    break
            else:
                continue
            break
        tags.append("trajectory_checked")
    return s0, infos, status


class LatticeFields(ProductSystem):
    chunk = 16

    def __init__(self, base, cells, deltas, bound, vmaps, vmaps0=(["id"],), mob=("m", 0.05, 0.02), theta=0.2, bonds=None):
        # bonds = list of magnitudes (fractions of the binding bound): instead of 8 compass directions of one magnitude every
        # junction may move towards / away from each of the other three, by each magnitude (neighbours closing in on a junction
        # that itself moves away are what makes several successors share one search ring)
        self.bonds = bonds
        self.vmaps0 = [v if isinstance(v, dict) else list(v) for v in vmaps0]
        self.name = "lattice-fields:%s" % base
        self.base, self.cells = base, cells
        self.bound = bound
        self.deltas = deltas
        self.vmaps = vmaps
        at = tissue_for(base, cells)
        self.at = at
        self.cm = SC.make_cmap(list(mob), theta, (0, 0), 1.0, SC.extent_of(bases.get(base)))
        real = real_junctions(at)
        pos = junction_positions(at, self.cm)
        self.pos = pos
        # four mutually neighbouring junctions: the one nearest to the centroid and its three nearest neighbours
        cen = sum(pos[j] for j in real) / len(real)
        j0 = min(real, key=lambda j: abs(pos[j] - cen))
        self.four = [j0] + sorted((j for j in real if j != j0), key=lambda j: abs(pos[j] - pos[j0]))[:3]
        P = [pos[j] for j in real]
        self.dmin = min(abs(a - b) for i, a in enumerate(P) for b in P[i + 1:])
        ext = max(max(z.real for z in P) - min(z.real for z in P), max(z.imag for z in P) - min(z.imag for z in P))
        self.lim = min(0.5 * self.dmin, 0.08 * ext)     # binding displacement bound of the statement
        self.binding = "spacing" if 0.5 * self.dmin < 0.08 * ext else "extent"

    def bases(self):
        # the numbering of BOTH frames is an environment choice (the tracker scans candidates in storage order)
        return [[di, vi, v0] for di in range(len(self.deltas)) for vi in range(len(self.vmaps)) for v0 in range(len(self.vmaps0))]

    def axes(self, base):
        if not self.bonds:
            return {"j0": list(range(9)), "j1": list(range(9)), "j2": list(range(9)), "j3": list(range(9))}
        # the central junction moves along any of the six bond directions; its three neighbours move towards or away from it
        n0, n1 = 1 + 6 * len(self.bonds), 1 + 2 * len(self.bonds)
        return {"j0": list(range(n0)), "j1": list(range(n1)), "j2": list(range(n1)), "j3": list(range(n1))}

    def eval_config(self, base, cfg):
        delta = self.deltas[base[0]] * self.lim
        vm = self.vmaps[base[1]]
        dz = {}
        for n, j in enumerate(self.four):
            v = cfg["j%d" % n]
            if v and not self.bonds:
                dz[j] = delta * cmath.exp(1j * math.pi * (v - 1) / 4)
            elif v:
                if n == 0:
                    others = [x for x in self.four if x != j]
                    mag = self.bonds[(v - 1) // 6] * self.lim
                    k_ = (v - 1) % 6
                    u = self.pos[others[k_ // 2]] - self.pos[j]
                else:
                    mag = self.bonds[(v - 1) // 2] * self.lim
                    k_ = (v - 1) % 2
                    u = self.pos[self.four[0]] - self.pos[j]
                dz[j] = mag * u / abs(u) * (1 if k_ % 2 == 0 else -1)
        viol, tags = [], []
        vm0 = self.vmaps0[base[2]]
        run_series(self.at, self.cm, [{}, dz], [vm0, vm], False, ["none"], viol, tags)
        if vm != ["id"] or vm0 != ["id"]:
            tags.append("renumbered")
        sig = "".join(str(cfg["j%d" % n]) for n in range(4))
        tags.append("binding:" + self.binding)
        return {"viol": viol, "tags": sorted(set(tags)), "cls": "%s/%s/%s/%s" % (base[0], base[1], base[2], sig), "nontrivial": bool(dz)}


STORED_REV = {"vmap": ["rev"], "vorder": "id"}        # ids reversed AND stored in ascending id order: every scan of the dict runs backwards


MOTIONS = ["rest", "flow_x", "flow_d", "shear", "stretch", "rotate", "breathe", "random_like"]
LEVELS = [0.3, 0.9, 0.99, 1.3]


class Series(ProductSystem):
    chunk = 4

    def __init__(self, tissues, bound):
        self.name = "series"
        self._t = tissues
        self.bound = bound

    def bases(self):
        return self._t

    def axes(self, base):
        return {"motion": MOTIONS, "level": LEVELS, "L": [2, 3, 4, 6], "vm0": VMAPS, "vm1": VMAPS, "vm2": VMAPS,
                "cm": [False, True], "guess": [["none"], ["true", 0], ["true", 3], ["wrong", 0], ["wrong", 2], ["wrong", 5], ["shared_empty"]],
                "unit": [1.0, 1e3, 1e-3, 512.0, 1e-6]}       # length unit: every bound of the statement is relative

    def eval_config(self, base, cfg):
        at = tissue_for(base[0], base[1])
        cm = SC.make_cmap(["m", 0.05, 0.02], 0.2, (0, 0), cfg["unit"], SC.extent_of(bases.get(base[0])))
        pos = junction_positions(at, cm)
        real = real_junctions(at)
        P = [pos[j] for j in real]
        dmin = min(abs(a - b) for i, a in enumerate(P) for b in P[i + 1:])
        ext = max(max(z.real for z in P) - min(z.real for z in P), max(z.imag for z in P) - min(z.imag for z in P))
        cen = sum(P) / len(P)
        lim = min(0.5 * dmin, 0.08 * ext)      # the binding displacement bound
        m = cfg["motion"]

        def unit_field(j):
            z = pos[j] - cen
            if m == "rest":
                return 0j
            if m == "flow_x":
                return 1 + 0j
            if m == "flow_d":
                return cmath.exp(0.7j)
            if m == "shear":
                return complex(z.imag, 0)
            if m == "stretch":
                return complex(z.real, -0.3 * z.imag)
            if m == "rotate":
                return 1j * z
            if m == "breathe":
                return z
            return cmath.exp(1j * (2.3 * z.real + 1.1 * z.imag)) * (0.6 + 0.4 * math.sin(3 * z.imag))
        uf = {j: unit_field(j) for j in pos}
        umax = max(abs(uf[j]) for j in real) or 1.0
        step = {j: uf[j] / umax * lim * cfg["level"] for j in pos}
        L = cfg["L"]
        fields = [{j: step[j] * t for j in pos} for t in range(L)]
        viol, tags = [], []
        vmaps = [cfg["vm0"], cfg["vm1"], cfg["vm2"]]
        run_series(at, cm, fields, vmaps, cfg["cm"], cfg["guess"], viol, tags)
        if any(v != ["id"] for v in vmaps):
            tags.append("renumbered")
        if cfg["cm"]:
            tags.append("cm")
        if L > 2:
            tags.append("len>2")
        if cfg["unit"] != 1.0:
            tags.append("large_length_unit" if cfg["unit"] > 1 else "small_length_unit")
        cls = "%s/%s/%d/%s/%s/%s" % (m, cfg["level"], L, cfg["cm"], cfg["guess"][0], cfg["unit"])
        return {"viol": viol, "tags": sorted(set(tags)), "cls": cls, "nontrivial": m != "rest"}


def eval_shared_guess(d):
    S = Series([d["tissue"]], 0)
    cfg = {"motion": d["motion"], "level": 0.9, "L": d["L"], "vm0": d["vm"][0], "vm1": d["vm"][1], "vm2": d["vm"][2], "cm": d["cm"], "guess": ["shared_empty"], "unit": 1.0}
    r = S.eval_config(d["tissue"], cfg)
    r["cls"] = "shared/" + r["cls"] + "/" + fsutil.state_hash(d["vm"])[:5]
    return r


def build(tier, seed):
    from checks import c07
    small = c07.first_connected("v5x5", 3)
    shared = ListSystem("shared-guess-object", [{"tissue": t, "motion": m, "L": L, "vm": vm, "cm": cmv}
                                                for t in (["v5x4", None], ["v5x5", small]) for m in ("flow_d", "random_like") for L in (3, 4, 6)
                                                for vm in ([["rev"], ["rot", 5], ["id"]], [["gap", 3, 7], ["stored_rev"], ["rev"]], [["id"], ["id"], ["id"]])
                                                for cmv in (False, True)], eval_shared_guess)
    if tier == "quick":
        return [LatticeFields("v5x5", small, [0.95, 0.4], 4, [["id"], ["rev"]], [["id"], ["rev"]]),
                LatticeFields("v5x4", None, [0.95], 4, [["id"], STORED_REV], [["id"], STORED_REV]),
                # a tissue many junction spacings wide: several successors fall inside the widest search ring of one junction
                LatticeFields("hex6x4", None, [1.0], 4, [["id"], STORED_REV], [["id"], STORED_REV], mob=["id"], theta=0.0, bonds=[0.85, 0.65]),
                Series([["v5x5", small], ["v5x4", None], ["v4x4p%d" % (seed + 1), None], ["hex3x3+loose", None]], 2), shared]
    return [LatticeFields("v5x5", small, [0.95, 0.4], 4, [["id"], ["rev"], ["rot", 5]], [["id"], ["rev"], ["rot", 3]]),
            LatticeFields("v5x4", None, [0.95, 0.4], 4, [["gap", 3, 7], STORED_REV], [["id"], STORED_REV]),
            LatticeFields("hex6x4", None, [1.0], 4, [["id"], STORED_REV, ["rot", 7]], [["id"], STORED_REV], mob=["id"], theta=0.0, bonds=[0.9, 0.85, 0.75, 0.65, 0.4]),
            LatticeFields("hex6x6", None, [1.0], 4, [["id"], STORED_REV], [["id"], STORED_REV], mob=["id"], theta=0.0, bonds=[0.85, 0.65]),
            LatticeFields("hex5x6", None, [1.0], 4, [["id"], STORED_REV], [["id"], STORED_REV], mob=["m", 0.02, 0.01], theta=0.0, bonds=[0.85, 0.65]),
            Series([["v5x5", small], ["v5x4", None], ["v5x5", None], ["v4x4p%d" % (seed + 1), None], ["hex3x3+loose", None], ["hex4x3+loose", None]], 3), shared]
