"""C19 — tessellation lattices match the Voronoi diagram of the given centres.

Centre sets (exact square, exact hexagonal, jittered lattices of 6..300 points) x helper ring on/off x distance cut-off
x pose (translation, quarter turn: turns horizontal ridges into vertical ones, generic rotation, scale) are explored
as a deviation-bounded product; the lattice built by forsys is compared with an independent reading of the Voronoi
diagram (bounded regions below the cut-off, corners rounded to three decimals).
"""
import math

import numpy as np

from fsmc import fsutil
from fsmc.explorer import ProductSystem
from fsmc.ref import mesh as RM

PID = "C19"
RULE = ("configurations of (lattice family, size, jitter pattern, helper ring, cut-off, pose) within the deviation bound; "
        "non-trivial = at least two cells sharing a ridge; classes = (family, size, ring, cut-off level, pose)")
BOUND = {"quick": "deviation bound 2 around the centre of 7 families (square, two hexagonal, jittered, scattered, planted triangle, square with ridges a few thousandths long) with sizes 3x3..6x6 and poses incl. pixel-like coordinates far from the origin, plus one 300-point set; in two of three centre orders the judged lattice is the second one built from the same element dictionaries",
         "thorough": "deviation bound 3, sizes up to 10x10 and 300 points with all poses"}
ASSUMPTIONS = ["the reference reads the same scipy.spatial.Voronoi diagram (regions, vertices) but interprets it independently",
               "corners that coincide after rounding to three decimals are one vertex (degenerate Voronoi vertices of exact lattices)"]
REQUIRED_TAGS = {"all": ["vertical_ridge", "exact_square", "exact_hex", "jittered", "ring", "cutoff_drops", "shared_ridge", "n>=200", "triangular_region", "random", "short_ridges", "far_from_origin", "built_twice"]}


def centres(spec):
    fam, nx, ny, pat = spec
    pts = []
    if fam == "rand":
        # deterministic scattered set (no lattice structure): n = nx * ny points in a box
        n = nx * ny
        for idx in range(n):
            u = math.modf(abs(math.sin((idx + 1) * 12.9898 + pat * 78.233) * 43758.5453))[0]
            w = math.modf(abs(math.sin((idx + 1) * 39.3468 + pat * 11.135) * 24634.6345))[0]
            pts.append((u * nx, w * ny))
        return pts
    if fam == "tri":
        # a centre with three neighbours at 120 degrees (triangular Voronoi region) inside two rings
        pts.append((0.0, 0.0))
        for k in range(3):
            pts.append((math.cos(2 * math.pi * k / 3 + 0.1 * pat), math.sin(2 * math.pi * k / 3 + 0.1 * pat)))
        for r, m in ((2.3, nx + 3), (3.9, ny + 6)):
            for k in range(m):
                pts.append((r * math.cos(2 * math.pi * k / m + 0.37), r * math.sin(2 * math.pi * k / m + 0.37)))
        return pts
    for j in range(ny):
        for i in range(nx):
            if fam == "square":
                pts.append((float(i), float(j)))
            elif fam == "sqjit":
                # square lattice with a jitter of a few thousandths: every four-fold Voronoi vertex splits into two corners joined
                # by a ridge a few thousandths long (just above the three-decimal resolution)
                idx = j * nx + i
                u = math.modf(math.sin((idx + 1) * 12.9898 + pat * 78.233) * 43758.5453)[0]
                w = math.modf(math.sin((idx + 1) * 39.3468 + pat * 11.135) * 24634.6345)[0]
                pts.append((i + 0.004 * u, j + 0.004 * w))
            elif fam == "hex":
                pts.append((i + 0.5 * (j % 2), j * math.sqrt(3) / 2))
            elif fam == "hexflat":
                pts.append((j * math.sqrt(3) / 2, i + 0.5 * (j % 2)))
            else:
                idx = j * nx + i
                u = math.modf(math.sin((idx + 1) * 12.9898 + pat * 78.233) * 43758.5453)[0]
                w = math.modf(math.sin((idx + 1) * 39.3468 + pat * 11.135) * 24634.6345)[0]
                pts.append((i + 0.5 * (j % 2) + 0.25 * u, j * math.sqrt(3) / 2 + 0.25 * w))
    return pts


def pose(pts, p, scale):
    out = []
    for (x, y) in pts:
        x, y = x * scale, y * scale
        if p == "quarter":
            x, y = -y, x
        elif p == "rot":
            c, s = math.cos(0.3), math.sin(0.3)
            x, y = c * x - s * y, s * x + c * y
        elif p == "shift":
            x, y = x - 7.25 * scale, y + 3.5 * scale
        elif p == "mirror":
            x = -x
        elif p == "far":
            x, y = x + 1500.0 * scale, y + 2200.0 * scale       # pixel-like coordinates far from the origin
        out.append((x, y))
    return out


def reference(points, max_distance):
    """independent reading of the Voronoi diagram: list of corner cycles (rounded), dropping unbounded and oversized regions"""
    import scipy.spatial as sp
    with np.errstate(all="ignore"):
        vor = sp.Voronoi(points)
        cells = []
        vertical = False
        for reg in vor.regions:
            if len(reg) == 0 or -1 in reg:
                continue
            P = [vor.vertices[i] for i in reg]
            diam = max(math.hypot(a[0] - b[0], a[1] - b[1]) for a in P for b in P)
            if diam > max_distance:
                cells.append(None)
                continue
            cyc = []
            for p in P:
                q = (round(float(np.around(p[0], 3)), 3) + 0.0, round(float(np.around(p[1], 3)), 3) + 0.0)
                if not cyc or cyc[-1] != q:
                    cyc.append(q)
            if len(cyc) > 1 and cyc[0] == cyc[-1]:
                cyc.pop()
            n = len(cyc)
            for i in range(n):
                if cyc[i][0] == cyc[(i + 1) % n][0]:
                    vertical = True
            cells.append(cyc)
        return cells, vertical


def canon(cyc):
    n = len(cyc)
    best = None
    for seq in (cyc, cyc[::-1]):
        for s in range(n):
            r = tuple(seq[s:] + seq[:s])
            if best is None or r < best:
                best = r
    return best


class Tessellations(ProductSystem):
    chunk = 2

    def __init__(self, name, bases_, bound, sizes):
        self.name = name
        self._b = bases_
        self.bound = bound
        self.sizes = sizes

    def bases(self):
        return self._b

    def axes(self, base):
        return {"size": self.sizes, "pat": [0, 1, 2, 3], "ring": [False, True], "cut": ["inf", "default", "mid", "tight"],
                "pose": ["none", "quarter", "rot", "shift", "mirror", "far"], "scale": [1.0, 10.0, 0.1],
                "corder": ["asbuilt", "reversed", "interleaved"]}       # order in which the centres are listed (the tessellation is a set property)

    def eval_config(self, base, cfg):
        import forsys.tessellation as ft
        nx, ny = cfg["size"]
        pts = pose(centres([base, nx, ny, cfg["pat"]]), cfg["pose"], cfg["scale"])
        if cfg.get("corder") == "reversed":
            pts = list(pts)[::-1]
        elif cfg.get("corder") == "interleaved":
            pts = list(pts)[::2] + list(pts)[1::2]
        tags = [{"square": "exact_square", "hex": "exact_hex", "hexflat": "exact_hex", "jit": "jittered", "rand": "random", "tri": "planted_triangle", "sqjit": "short_ridges"}[base]]
        if cfg["pose"] == "far":
            tags.append("far_from_origin")
        if cfg["ring"]:
            extra, ex = fsutil.call(ft.add_voronoi_centers, list(pts))
            if ex is not None:
                return {"viol": [{"what": "add_voronoi_centers raised", "detail": fsutil.exc_str(ex)}], "tags": tags, "cls": "exc"}
            pts = list(pts) + [tuple(map(float, p)) for p in extra]
            tags.append("ring")
        if len(pts) >= 200:
            tags.append("n>=200")
        spacing = cfg["scale"]
        cut = {"inf": 1e12, "default": 75.0, "mid": 2.6 * spacing, "tight": 1.3 * spacing}[cfg["cut"]]
        ref, vertical = reference(pts, cut)
        if vertical:
            tags.append("vertical_ridge")
        if any(c is None for c in ref):
            tags.append("cutoff_drops")
        kw = {"max_distance": cut}
        els, ex = fsutil.call(ft.create_lattice_elements, list(pts), **kw)
        viol, known = [], []
        if ex is None:
            res, ex = fsutil.call(ft.create_lattice, *els)
        if ex is not None:
            if vertical and isinstance(ex, FloatingPointError):
                known.append({"id": "F5", "exc": fsutil.exc_str(ex)})
                return {"viol": [], "known": known, "tags": tags, "cls": "F5"}
            return {"viol": [{"what": "building the lattice raised", "detail": {"exc": fsutil.exc_str(ex), "n": len(pts)}}], "tags": tags, "cls": "exc"}
        v, e, c = res
        # the element dictionaries are the user's data: building the lattice from them a second time must give the same lattice
        first_sig = sorted((cid, tuple((round(float(w.x), 6), round(float(w.y), 6)) for w in cc.vertices)) for cid, cc in c.items())
        if cfg.get("corder") != "interleaved":
            v = e = c = res = None
            res, ex = fsutil.call(ft.create_lattice, *els)
            if ex is not None:
                return {"viol": [{"what": "building the lattice a second time from the same elements raised", "detail": fsutil.exc_str(ex)}], "tags": tags, "cls": "exc"}
            v, e, c = res
            tags.append("built_twice")
            second_sig = sorted((cid, tuple((round(float(w.x), 6), round(float(w.y), 6)) for w in cc.vertices)) for cid, cc in c.items())
            if second_sig != first_sig:
                nd = sum(1 for a, b in zip(first_sig, second_sig) if a != b) if len(first_sig) == len(second_sig) else -1
                viol.append({"what": "building the lattice twice from the same element dictionaries gives two different lattices (the judged one is the second)",
                             "detail": {"cells_first": len(first_sig), "cells_second": len(second_sig), "cells_that_differ": nd}})
        exp = [canon(cy) for cy in ref if cy is not None and len(cy) >= 3]
        if any(len(x) == 3 for x in exp):
            tags.append("triangular_region")
        got = []
        for cc in c.values():
            got.append(canon([(round(float(w.x), 3) + 0.0, round(float(w.y), 3) + 0.0) for w in cc.vertices]))
        if sorted(got) != sorted(exp):
            miss = [x for x in exp if x not in got]
            extra = [x for x in got if x not in exp]
            viol.append({"what": "cells are not one per bounded Voronoi region below the cut-off with the region's rounded corners as cycle",
                         "detail": {"cells": len(got), "regions": len(exp), "missing": [list(m)[:6] for m in miss[:2]], "extra": [list(m)[:6] for m in extra[:2]]}})
        # shared ridges share vertices and mesh edges
        coords = {}
        for k, w in v.items():
            key = (round(float(w.x), 3) + 0.0, round(float(w.y), 3) + 0.0)
            if key in coords:
                viol.append({"what": "two vertices at the same (rounded) position: neighbouring regions do not share the vertex", "detail": [coords[key], k]})
                break
            coords[key] = k
        pairs = {}
        for k, ed in e.items():
            key = frozenset((ed.v1.id, ed.v2.id))
            if key in pairs:
                viol.append({"what": "two mesh edges join the same two vertices: neighbouring regions do not share the edge", "detail": [pairs[key], k]})
                break
            pairs[key] = k
        use = {}
        for cid, cc in c.items():
            ids = [w.id for w in cc.vertices]
            for i in range(len(ids)):
                use.setdefault(frozenset((ids[i], ids[(i + 1) % len(ids)])), []).append(cid)
        if any(len(x) == 2 for x in use.values()):
            tags.append("shared_ridge")
        if any(len(x) > 2 for x in use.values()):
            viol.append({"what": "a mesh edge is used by more than two cells"})
        signs = set()
        for cc in c.values():
            with fsutil.quiet():
                signs.add(int(np.sign(cc.get_area())))
        if len(signs) > 1:
            viol.append({"what": "cells are not all stored in the same rotational sense", "detail": sorted(signs)})
        prob = RM.check_mesh(v, e, c)
        if prob:
            viol.append({"what": "mesh is inconsistent", "detail": prob[:3]})
        cls = "%s/%s/%s/%s/%s/%s" % (base, cfg["size"], cfg["ring"], cfg["cut"], cfg["pose"], cfg["scale"])
        return {"viol": viol, "known": known, "tags": sorted(set(tags)), "cls": cls, "nontrivial": "shared_ridge" in tags}


def build(tier, seed):
    sizes = [[4, 4], [3, 3], [3, 5], [6, 6], [5, 4]]
    if tier == "quick":
        return [Tessellations("lattices-d3", ["square", "hex", "hexflat", "jit", "rand", "tri", "sqjit"], 3, sizes),
                Tessellations("large", ["jit", "hex", "rand"], 1, [[20, 15], [17, 12]])]
    return [Tessellations("lattices-d3", ["square", "hex", "hexflat", "jit", "rand", "tri", "sqjit"], 3, sizes + [[10, 10], [8, 3]]),
            Tessellations("large", ["jit", "hex", "square"], 2, [[20, 15], [17, 12]])]
