"""C17 — myosin quantification is a normalised, linear window statistic of the image.

 * window medians: ALL 19683 {0,1,2}-valued 3x3 windows (layers=1, one vertex) against numpy's median;
 * integrated band: ALL unit-impulse images of a 24x24 canvas (the intensity is linear in the image, so the impulse
   responses determine the band exactly) for every polyline x layers x placement, against a reference band;
 * configurations (polyline family, rescale/offset, layers, integrate, normalize, image kind, image scale, list variant)
   within a deviation bound of a centre; the transition "multiply the image by c" must multiply every intensity by c.
"""
import itertools
import os
import math

import numpy as np

from fsmc import fsutil
from fsmc.explorer import ProductSystem, ListSystem

PID = "C17"
RULE = ("all 3^9 three-valued 3x3 windows; all 576 unit impulses x polylines x layers x placements; configurations within the deviation bound; "
        "non-trivial = image not constant; classes = config signature / window multiset / impulse-response signature")
BOUND = {"quick": "all 19683 windows; all 576 impulses x 6 polylines x layers 0..2 x 2 placements; deviation bound 2 over 10 axes on five interface sets, two of them long interfaces on 24 x 120 and 120 x 24 images (incl. quantification through read_myosin from a TIFF written to disk, images in which one interface is exactly black, and an earlier quantification of the same interface objects that differs in placement, image or band width); every plain-list call repeated with default-valued arguments omitted",
         "thorough": "same with layers 0..3 and 3 placements; deviation bound 3"}
ASSUMPTIONS = ["PIL truncates fractional pixel coordinates toward zero; all placements keep coordinates positive",
               "the window of the LAST vertex of a polyline is not part of the integrated band (the walk stops before the end point); images are dark there so the convention does not matter in the configuration sweep; the impulse sweep reports it",
               "'equal for all interfaces of a uniformly bright image' is checked without integration (with integration the band size per unit length depends on the direction of the polyline)"]
REQUIRED_TAGS = {"all": ["windows", "impulses", "integrate", "average", "float_image", "uint8_image", "uniform_image", "rescaled", "repeated_interface", "diagonal", "curved", "zero_intensity_interface", "defaults_omitted", "requantified_with_other_options", "prior_call:place", "prior_call:image", "prior_call:layers", "through_read_myosin", "portrait_image", "landscape_image"]}

POLYLINES = {
    "horizontal": [(4, 6), (7, 6), (10, 6), (13, 6)],
    "vertical": [(9, 3), (9, 6), (9, 9), (9, 13)],
    "diagonal": [(3, 3), (6, 6), (9, 9), (12, 12)],
    "shallow": [(3, 5), (7, 6), (11, 8), (16, 9)],
    "steep": [(6, 3), (7, 8), (9, 12), (10, 17)],
    "curved": [(4, 10), (6, 7), (9, 5), (12, 6), (14, 9)],
    "fractional": [(3.5, 4.25), (6.75, 6.5), (10.2, 7.9), (13.6, 11.1)],
    "backward": [(15, 12), (11, 10), (8, 9), (4, 4)],
    # long interfaces for images that are not square (24 x 120 and 120 x 24): vertices whose row / column differ by a whole image width
    "tall": [(5, 70), (5.5, 58), (6, 46), (7, 30)], "tall2": [(12, 20), (13, 44), (12.5, 60), (14, 92)],
    "wide": [(70, 5), (58, 5.5), (46, 6), (30, 7)], "wide2": [(20, 12), (44, 13), (60, 12.5), (92, 14)],
}
PLACE = [([1, 1], [0, 0]), ([2, 2], [3, 1]), ([0.5, 0.5], [1, 2]), ([2, 3], [4, 7])]


def big_edge(points, beid=0):
    import forsys.vertex as fv
    import forsys.edge as fe
    vs = [fv.Vertex(i + 100 * beid, float(p[0]), float(p[1])) for i, p in enumerate(points)]
    es = [fe.SmallEdge(i + 100 * beid, vs[i], vs[i + 1]) for i in range(len(vs) - 1)]
    be = fe.BigEdge(beid, vs)
    be._keep = es
    return be


def ref_window(arr, x, y, layers):
    """pixel values of the (2 layers + 1)^2 window centred on (x, y): PIL truncates the coordinates"""
    vals = []
    for ii in range(-layers, layers + 1):
        for kk in range(-layers, layers + 1):
            vals.append(arr[int(y + kk), int(x + ii)])
    return vals


def ref_plain(arr, pts, layers, rescale, offset):
    meds = []
    for (x, y) in pts:
        px, py = x * rescale[0] + offset[0], y * rescale[1] + offset[1]
        meds.append(float(np.median(ref_window(arr, px, py, layers))))
    return float(np.mean(meds))


def ref_band(pts, layers, rescale, offset):
    """distinct pixels of the layered band and the polyline length (reference, independent of the library)"""
    P = [(x * rescale[0] + offset[0], y * rescale[1] + offset[1]) for x, y in pts]
    band = set()
    length = 0.0
    for a, b in zip(P[:-1], P[1:]):
        length += math.hypot(a[0] - b[0], a[1] - b[1])
        ia = (math.ceil(a[0]), math.ceil(a[1]))
        ib = (math.ceil(b[0]), math.ceil(b[1]))
        dx, dy = abs(ia[0] - ib[0]), abs(ia[1] - ib[1])
        ax = 0 if dx > dy else 1
        if ia[ax] == ib[ax]:
            continue
        step = 1 if ia[ax] < ib[ax] else -1
        for val in range(ia[ax], ib[ax], step):
            t = (val - ia[ax]) / (ib[ax] - ia[ax])
            other = ia[1 - ax] + t * (ib[1 - ax] - ia[1 - ax])
            pos = (val, other) if ax == 0 else (other, val)
            for ii in range(-layers, layers + 1):
                for kk in range(-layers, layers + 1):
                    band.add((int(pos[0] + ii), int(pos[1] + kk)))
    return band, length


def make_image(kind, size, scale, dark=(), blackout=()):
    W, H = (size, size) if isinstance(size, int) else size       # (width, height)
    yy, xx = np.mgrid[0:H, 0:W]
    if kind == "uniform":
        a = np.full((H, W), 37.0)
    elif kind in ("uint8", "uint8_black_first"):
        a = ((xx * 37 + yy * 91 + (xx * yy) % 17 * 13) % 200 + 20).astype(float)
    else:
        a = 5.0 + 40.0 * np.abs(np.sin(0.37 * xx + 1.3 * yy) + 0.3 * np.cos(0.11 * xx * yy))
    a = a * scale
    for seg in blackout:
        # everything within 6 pixels of the (placed) polyline is black: that interface has intensity exactly 0
        for (x0, y0), (x1, y1) in zip(seg[:-1], seg[1:]):
            m = int(max(abs(x1 - x0), abs(y1 - y0)) * 2) + 2
            for t in range(m + 1):
                x = int(round(x0 + (x1 - x0) * t / m))
                y = int(round(y0 + (y1 - y0) * t / m))
                a[max(0, y - 6):y + 7, max(0, x - 6):x + 7] = 0.0
    for (x, y) in dark:
        a[max(0, y - 4):y + 5, max(0, x - 4):x + 5] = 0.0
    from PIL import Image
    if kind in ("uint8", "uint8_black_first"):
        a = np.round(a)
        if a.max() > 255:
            return None, None
        return Image.fromarray(a.astype(np.uint8)), a
    return Image.fromarray(a.astype(np.float64) if False else a.astype(np.float32)), a.astype(np.float32).astype(float)


_TMP = None


def tmpdir():
    global _TMP
    if _TMP is None or not os.path.isdir(_TMP):
        import atexit, shutil, tempfile
        _TMP = tempfile.mkdtemp(prefix="c17_")
        atexit.register(shutil.rmtree, _TMP, True)
    return _TMP


# ------------------------------------------------------------------ all 3x3 windows
def eval_windows(d):
    import forsys.myosin as fm
    from PIL import Image
    viol = []
    classes = set()
    blk, nblk = d["block"], d["nblocks"]
    n = 0
    for idx, w in enumerate(itertools.product((0, 1, 2), repeat=9)):
        if idx % nblk != blk:
            continue
        arr = np.array(w, float).reshape(3, 3) * 7.0
        img = Image.fromarray(arr.astype(np.float32))
        be = big_edge([(1, 1), (1, 1.2)])
        be.vertices = be.vertices[:1]
        with fsutil.quiet():
            res, ex = fsutil.call(fm.get_intensities, [be], img, False, None, 1)
        n += 1
        if ex is not None:
            viol.append({"what": "get_intensities raised on a 3x3 window", "detail": fsutil.exc_str(ex)})
            break
        exp = float(np.median(arr))
        if abs(res[0] - exp) > 1e-9:
            viol.append({"what": "single-vertex intensity is not the median of its 3x3 window", "detail": {"window": list(w), "got": float(res[0]), "exp": exp}})
            break
        classes.add(tuple(sorted(w)))
    return {"viol": viol, "tags": ["windows"], "cls": "win%d" % blk, "extra_states": n, "extra_evaluations": n, "extra_classes": ["w%s" % "".join(map(str, c)) for c in sorted(classes)][:300]}


# ------------------------------------------------------------------ impulse basis
def eval_impulses(d):
    import forsys.myosin as fm
    from PIL import Image
    name, layers, pl = d["poly"], d["layers"], d["place"]
    pts = POLYLINES[name]
    rescale, offset = PLACE[pl]
    size = 64
    band, length = ref_band(pts, layers, rescale, offset)
    last = (pts[-1][0] * rescale[0] + offset[0], pts[-1][1] * rescale[1] + offset[1])
    viol, known = [], []
    got_band = {}
    n = 0
    # every pixel of the bounding canvas of the band (+ margin) is lit alone
    xs = [p[0] for p in band] + [int(last[0])]
    ys = [p[1] for p in band] + [int(last[1])]
    x0, x1, y0, y1 = min(xs) - 2, max(xs) + 2, min(ys) - 2, max(ys) + 2
    for y in range(max(0, y0), min(size, y1 + 1)):
        for x in range(max(0, x0), min(size, x1 + 1)):
            arr = np.zeros((size, size), np.float32)
            arr[y, x] = 1.0
            img = Image.fromarray(arr)
            be = big_edge(pts)
            res, ex = fsutil.call(fm.get_intensities, [be], img, True, None, layers, rescale=rescale, offset=offset)
            n += 1
            if ex is not None:
                return {"viol": [{"what": "get_intensities(integrate=True) raised", "detail": fsutil.exc_str(ex)}], "tags": ["impulses"], "cls": "exc"}
            w = res[0] * length
            if abs(w) > 1e-9:
                got_band[(x, y)] = w
    multi = {p: w for p, w in got_band.items() if abs(w - 1.0) > 1e-6}
    # whether the window of the very last vertex belongs to the band is a convention: both are accepted
    endw = {(int(math.ceil(last[0]) + ii), int(math.ceil(last[1]) + kk)) for ii in range(-layers, layers + 1) for kk in range(-layers, layers + 1)}
    if set(got_band) != band and not (band <= set(got_band) <= (band | endw)):
        viol.append({"what": "pixels contributing to the integrated intensity are not the layered band around the polyline",
                     "detail": {"extra": sorted(set(got_band) - band)[:6], "missing": sorted(band - set(got_band))[:6], "poly": name, "layers": layers}})
    elif multi:
        if all(abs(w - round(w)) < 1e-6 and w > 1 for w in multi.values()):
            known.append({"id": "F14", "poly": name, "layers": layers, "pixels_counted_repeatedly": len(multi), "max_count": max(round(w) for w in multi.values())})
        else:
            viol.append({"what": "a band pixel does not enter the integrated intensity with weight 1 / length", "detail": {"weights": sorted(multi.items())[:5]}})
    tags = ["impulses"]
    if name in ("diagonal", "shallow", "steep"):
        tags.append("diagonal")
    if name == "curved":
        tags.append("curved")
    if pl:
        tags.append("rescaled")
    return {"viol": viol, "known": known, "tags": tags, "cls": "%s/%d/%d/%d" % (name, layers, pl, len(band)), "extra_states": n, "extra_evaluations": n}


# ------------------------------------------------------------------ configuration sweep
class Configs(ProductSystem):
    chunk = 8

    def __init__(self, bound, layers):
        self.name = "configurations"
        self.bound = bound
        self.layers = layers

    def bases(self):
        return [["horizontal", "diagonal", "curved"], ["vertical", "shallow", "fractional", "steep"], ["backward", "curved", "curved"],
                ["tall", "tall2"], ["wide", "wide2"]]

    def axes(self, base):
        return {"place": [0, 1, 2, 3], "layers": self.layers, "integrate": [False, True], "normalize": [None, "average"],
                "image": ["float", "uint8", "uniform", "uint8_black_first", "float_black_first"], "scale": [1.0, 3.0, 0.25], "list": ["plain", "repeated", "equal_valued", "single"],
                "prior": [None, "place", "image", "layers"],
                "entry": ["direct", "file"]}      # "file": the image is written as a TIFF (8 bit 'L' / 32-bit float 'F') and quantified through read_myosin

    def eval_config(self, base, cfg):
        import forsys.myosin as fm
        rescale, offset = PLACE[cfg["place"]]
        polys = [POLYLINES[n] for n in base]
        if cfg["list"] == "equal_valued":
            # two different interfaces that will get the same intensity: the second is the first shifted along the image period
            polys = polys + [polys[0]]
        if cfg["list"] == "single":
            polys = polys[:1]
        edges = [big_edge(p, i) for i, p in enumerate(polys)]
        if cfg["list"] == "repeated":
            edges = edges + [edges[0]]
        dark = []
        for p in polys:
            dark.append((int(p[-1][0] * rescale[0] + offset[0]), int(p[-1][1] * rescale[1] + offset[1])))
        blackout = []
        if cfg["image"].endswith("black_first") and len(polys) > 1:
            blackout = [[(px * rescale[0] + offset[0], py * rescale[1] + offset[1]) for px, py in polys[0]]]
        size = (24, 120) if base[0] == "tall" else ((120, 24) if base[0] == "wide" else 96)
        Wd, Hd = (size, size) if isinstance(size, int) else size
        reach = cfg["layers"] + 2
        if any(not (reach <= px * rescale[0] + offset[0] < Wd - reach and reach <= py * rescale[1] + offset[1] < Hd - reach) for p in polys for px, py in p):
            return {"viol": [], "tags": ["placement_outside_image"], "cls": "outside", "outdom": True}
        img, arr = make_image(cfg["image"], size, cfg["scale"], dark if cfg["integrate"] else (), blackout)
        tags = ["portrait_image"] if base[0] == "tall" else (["landscape_image"] if base[0] == "wide" else [])
        if img is None:
            return {"viol": [], "tags": ["uint8_overflow_skipped"], "cls": "skip", "outdom": True}
        tags.append({"float": "float_image", "uint8": "uint8_image", "uniform": "uniform_image", "uint8_black_first": "uint8_image", "float_black_first": "float_image"}[cfg["image"]])
        if cfg["integrate"]:
            tags.append("integrate")
        if cfg["normalize"]:
            tags.append("average")
        if cfg["place"]:
            tags.append("rescaled")
        if cfg["list"] == "repeated":
            tags.append("repeated_interface")
        if cfg["layers"] % 2 == 0 and cfg["list"] != "repeated":
            # an earlier quantification of the SAME interface objects with other options (it stores reference values on them):
            # the judged call below must report and store what a first call would
            fsutil.call(fm.get_intensities, edges, img, not cfg["integrate"], None if cfg["normalize"] else "average", cfg["layers"] + 1, rescale=rescale, offset=offset)
            tags.append("requantified_with_other_options")
        if cfg["prior"] is not None:
            # an earlier quantification of the SAME interface objects that differs from the judged call in exactly one respect
            # (another channel placed differently, another image, another band width)
            r_, o_ = PLACE[(cfg["place"] + 1) % len(PLACE)] if cfg["prior"] == "place" else (rescale, offset)
            img_ = make_image("float" if cfg["image"] != "float" else "uniform", size, 1.0, (), [])[0] if cfg["prior"] == "image" else img
            fsutil.call(fm.get_intensities, edges, img_, cfg["integrate"], cfg["normalize"], cfg["layers"] + (1 if cfg["prior"] == "layers" else 0), rescale=r_, offset=o_)
            tags.append("prior_call:" + cfg["prior"])
        if cfg["entry"] == "file":
            import types
            path = os.path.join(tmpdir(), "c17_%d_%s.tif" % (os.getpid(), fsutil.state_hash([base, cfg])[:12]))
            img.save(path)
            try:
                res, ex = fsutil.call(fm.read_myosin, types.SimpleNamespace(internal_big_edges=edges, big_edges_list=[]), path, cfg["integrate"], cfg["normalize"], cfg["layers"],
                                      rescale=rescale, offset=offset)
            finally:
                os.remove(path)
            tags.append("through_read_myosin")
        else:
            res, ex = fsutil.call(fm.get_intensities, edges, img, cfg["integrate"], cfg["normalize"], cfg["layers"], rescale=rescale, offset=offset)
        viol, known = [], []
        # the same call with every argument that equals its default (integrate=False, normalize='average', layers=1,
        # rescale=[1, 1], offset=[0, 0]) left out
        kw = {}
        if cfg["integrate"]:
            kw["integrate"] = True
        if cfg["normalize"] != "average":
            kw["normalize"] = cfg["normalize"]
        if cfg["layers"] != 1:
            kw["layers"] = cfg["layers"]
        if cfg["place"] != 0:
            kw["rescale"], kw["offset"] = rescale, offset
        if len(kw) < 5 and ex is None and cfg["list"] == "plain":
            edges2 = [big_edge(p, i) for i, p in enumerate(polys)]
            res2, ex2 = fsutil.call(fm.get_intensities, edges2, img, **kw)
            tags.append("defaults_omitted")
            if ex2 is not None or sorted(res2) != sorted(res) or any(abs(float(res2[i]) - float(res[i])) > 1e-12 * max(1.0, abs(float(res[i]))) for i in res):
                viol.append({"what": "get_intensities gives a different answer when arguments equal to their defaults are omitted",
                             "detail": {"omitted_call": {k_: str(v_) for k_, v_ in kw.items()}, "exc": fsutil.exc_str(ex2) if ex2 else None}})
        if ex is not None and cfg["normalize"] == "average":
            raw = []
            for pts_ in [[(v.x, v.y) for v in be.vertices] for be in edges]:
                if cfg["integrate"]:
                    band_, len_ = ref_band(pts_, cfg["layers"], rescale, offset)
                    raw.append(sum(arr[y, x] for (x, y) in band_))
                else:
                    raw.append(ref_plain(arr, pts_, cfg["layers"], rescale, offset))
            if sum(raw) == 0:
                return {"viol": [], "tags": tags + ["all_zero_no_verdict"], "cls": "allzero", "outdom": True, "obs": None}
        if ex is not None:
            if cfg["list"] in ("repeated", "equal_valued") and isinstance(ex, KeyError):
                known.append({"id": "F27", "exc": fsutil.exc_str(ex), "list": cfg["list"]})
                return {"viol": [], "known": known, "tags": tags, "cls": "F27", "obs": None}
            return {"viol": [{"what": "get_intensities raised", "detail": {"exc": fsutil.exc_str(ex), "cfg": cfg}}], "tags": tags, "cls": "exc", "obs": None}
        plist = [[(v.x, v.y) for v in be.vertices] for be in edges]
        exp = []
        f14 = False
        for pts in plist:
            if cfg["integrate"]:
                band, length = ref_band(pts, cfg["layers"], rescale, offset)
                exp.append(sum(arr[y, x] for (x, y) in band) / length)
            else:
                exp.append(ref_plain(arr, pts, cfg["layers"], rescale, offset))
        if any(x == 0 for x in exp) and any(x != 0 for x in exp):
            tags.append("zero_intensity_interface")
        if cfg["normalize"] == "average":
            m = float(np.mean(exp))
            if m == 0:
                # every band is empty / dark: 'average' normalisation divides by zero, nothing is promised
                return {"viol": [], "tags": tags + ["all_zero_no_verdict"], "cls": "allzero", "outdom": True, "obs": None}
            exp = [x / m for x in exp]
        got = [float(res[i]) for i in range(len(edges))] if len(res) == len(edges) else None
        if got is None:
            viol.append({"what": "not one intensity per interface of the list", "detail": {"returned": sorted(res)[:10], "interfaces": len(edges)}})
        else:
            for i, (g, x) in enumerate(zip(got, exp)):
                if abs(g - x) > 1e-6 * max(1.0, abs(x)):
                    if cfg["integrate"] and g > x:
                        f14 = True
                    else:
                        viol.append({"what": "intensity differs from the reference window statistic", "detail": {"interface": i, "got": g, "exp": x, "cfg": cfg}})
                        break
            if f14:
                known.append({"id": "F14", "cfg": cfg})
            if cfg["normalize"] == "average" and abs(float(np.mean(got)) - 1.0) > 1e-9:
                viol.append({"what": "'average' normalisation does not give mean one", "detail": float(np.mean(got))})
            if cfg["image"] == "uniform" and not cfg["integrate"] and max(got) - min(got) > 1e-9 * max(1.0, max(got)):
                viol.append({"what": "interfaces of a uniformly bright image have different intensities", "detail": got})
            for i, be in enumerate(edges):
                last_index = max(j for j, b in enumerate(edges) if b is be)
                if abs(be.gt - got[last_index]) > 1e-12:
                    viol.append({"what": "interface reference values are not stored in list order", "detail": {"interface": i, "gt": float(be.gt), "returned": got[last_index]}})
                    break
        cls = fsutil.state_hash([base, cfg])[:10]
        return {"viol": viol, "known": known, "tags": tags, "cls": cls, "obs": {"got": got, "norm": cfg["normalize"]}, "nontrivial": cfg["image"] != "uniform"}

    def check_pair(self, base, axis, cfg1, r1, cfg2, r2):
        if axis != "scale" or not r1.get("obs") or not r2.get("obs") or r1["obs"]["got"] is None or r2["obs"]["got"] is None:
            return [], []
        if cfg1["image"].startswith("uint8"):
            return [], []          # 8-bit images are rounded after scaling
        c = cfg2["scale"] / cfg1["scale"]
        if cfg1["normalize"] == "average":
            c = 1.0
        g1, g2 = r1["obs"]["got"], r2["obs"]["got"]
        if any(abs(b - c * a) > 1e-5 * max(1.0, abs(c * a)) for a, b in zip(g1, g2)):
            return [{"what": "intensities do not scale linearly with the image", "detail": {"factor": c, "before": g1[:4], "after": g2[:4]}}], []
        return [], []


def build(tier, seed):
    nblk = 64
    layers = [1, 0, 2, 3]
    places = [0, 1] if tier == "quick" else [0, 1, 3]
    imp = [{"poly": p, "layers": l, "place": pl} for p in ("horizontal", "vertical", "diagonal", "shallow", "steep", "curved", "backward") for l in layers for pl in places]
    return [ListSystem("windows-3x3-all", [{"block": b, "nblocks": nblk} for b in range(nblk)], eval_windows),
            ListSystem("impulse-basis", imp, eval_impulses),
            Configs(2 if tier == "quick" else 3, layers)]
