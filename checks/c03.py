"""C03 — dynamic inference recovers tensions from junction velocities.

A series is built so that, at the inferred frame, every junction moves with velocity = resultant of the prescribed
tensions (unit mobility): the neighbouring frame is the inferred one with every junction displaced by
(t' - t) x M_ref T and the interfaces sheared along. The real pipeline (tracking -> velocities -> right-hand
side -> solver) must return T within the bound implied by the 3-decimal rounding of the velocity term.
Tension vectors: the basis 1 + (e_i - mean)/2 for EVERY internal interface plus fixed patterns (the right-hand side
is exactly linear in T).
"""
import cmath
import math

import numpy as np

from fsmc import bases, tissue as T, fsutil, solvecase as SC
from fsmc.explorer import ProductSystem
from fsmc.ref import tangent as RT, nnls as RN
from checks import c01

PID = "C03"
RULE = ("configurations of (base, Moebius map, rotation, k, series length, inferred frame, time stamps, per-frame renumbering, solver, tension vector) "
        "within the deviation bound of a centre; non-trivial = reference system of full column rank; classes = (base, map, length, frame, times, solver, tension index)")
BOUND = {"quick": "deviation bound 2 around the centre of one 11-cell base, every basis tension vector (20) + 3 patterns, series of 2..5 frames; the judged inference also after an adimensional solve of the same frame (same force matrix) and after a system-velocity query",
         "thorough": "d=2 on three bases, d=3 on one"}
ASSUMPTIONS = ["tolerance = 3 x (5e-4 sqrt(rows)) / sigma_min(reference augmented system) + 10 x (matrix error) x sqrt(nnz) x |z| / sigma_min + solver term",
               "displacements are kept far inside the tracking bounds of C12 (|v| dt <= 3% of the smallest junction spacing)",
               "instances with a tangent mirrored by sign forcing (finding F1) give no verdict"]
REQUIRED_TAGS = {"all": ["verdict", "first", "middle", "last", "unequal_times", "renumbered", "solver:lsq", "solver:lsq_linear", "basis_vector", "id0_on_junction", "after_adimensional_solve_same_matrix", "after_system_velocity"]}

TIMES = {"equal": lambda n: [float(i) for i in range(n)],
         "unequal": lambda n: [0.0, 1.0, 4.0, 4.5, 6.5][:n],
         "offset": lambda n: [5.0 + 0.25 * i for i in range(n)],
         "tiny": lambda n: [1e-3 * i for i in range(n)],
         # stamps that start below zero: the value 0.0 falls on a frame that is not the first one (and on the last of two frames)
         "negative": lambda n: [-3.0, 0.0] if n == 2 else [-3.0, -1.0, 0.0, 2.5, 4.0][:n]}
VMAPS = [["id"], ["rev"], ["gap", 3, 7], ["off", 10 ** 6], ["swap0"], ["stored_rev"]]


def tension_vector(n, spec):
    if spec[0] == "basis":
        t = np.ones(n)
        t[spec[1] % n] += 0.5
        return t * n / t.sum()
    if spec[0] == "alt":
        t = np.array([1.0 + 0.4 * ((-1) ** i) for i in range(n)])
    elif spec[0] == "ramp":
        t = np.linspace(0.5, 1.5, n)
    else:
        t = np.array([1.0 + 0.45 * math.sin(1.7 * i + 0.3) for i in range(n)])
    return t * n / t.sum()


class Dynamics(ProductSystem):
    chunk = 2

    def __init__(self, base_names, bound, seed):
        self.name = "dynamics-d%d:%s" % (bound, "+".join(base_names))
        self._bases = base_names
        self.bound = bound
        self.seed = seed
        self._axes = {}

    def bases(self):
        return self._bases

    def axes(self, base):
        if base not in self._axes:
            at = bases.get(base)
            ext = SC.extent_of(at)
            n = len(T.internal_interfaces(at))
            th = []
            th0 = 0.3 + 0.23 * self.seed
            for m in range(400):
                a = th0 + 0.05 * m
                if all(c01.predicted_f1(at, k, SC.make_cmap(mob, a, (0, 0), 1.0, ext)) == 0 for k in (3,) for mob in (["m", 0.05, 0.02],)):
                    th.append(a)
                if len(th) == 3:
                    break
            self._axes[base] = {
                "mob": [["m", 0.05, 0.02], ["id"], ["mc", 0.12, 0.05]],
                "rot": th + [th0 + 1.1],
                "k": [3, 1, 8],
                "L": [3, 2, 4, 5],
                "which": ["first", "middle", "last"],
                "times": ["equal", "unequal", "offset", "tiny", "negative"],
                "vm0": VMAPS, "vm1": VMAPS, "vm2": VMAPS, "vm3": VMAPS, "vm4": VMAPS,
                "solver": [None, "lsq", "lsq_linear"],
                "tvec": [["sin"], ["alt"], ["ramp"]] + [["basis", i] for i in range(n)],
                # what happened on the same object before the judged inference: nothing | the same frame solved with adimensional
                # velocities (the judged solve then re-uses that force matrix) | the system velocity of every frame queried
                "pre": [None, "adimensional_solve", "system_velocity"],
            }
        return self._axes[base]

    def eval_config(self, base, cfg):
        at = bases.get(base)
        ext = SC.extent_of(at)
        cm = SC.make_cmap(cfg["mob"], cfg["rot"], (0, 0), 1.0, ext)
        L = cfg["L"]
        f = {"first": 0, "middle": L // 2 if L > 2 else 0, "last": L - 1}[cfg["which"]]
        times = TIMES[cfg["times"]](L)
        tags, viol, known = [], [], []
        with fsutil.ref_math():
            ref = RT.reference_system(at, cm)
            n = len(ref["cols"])
            Tv = tension_vector(n, cfg["tvec"])
            v = ref["M"] @ Tv                 # resultant at every row junction (x, y interleaved)
            vj = {j: complex(v[2 * r], v[2 * r + 1]) for r, j in enumerate(ref["rows"])}
            vmax = max(abs(z) for z in vj.values())
            # keep |v| * (largest time step) at 3% of the smallest junction spacing
            jp = {j: cm(T.zc(p)) for j, p in at["J"].items()}
            js = sorted(jp)
            dmin = min(abs(jp[a] - jp[b]) for i, a in enumerate(js) for b in js[i + 1:])
            steps = [abs(times[i + 1] - times[i]) for i in range(L - 1)]
            speed = 0.03 * dmin / (vmax * max(steps))
            # mobility = 1: velocity = resultant. The series is therefore expressed in a time unit in which this holds:
            # rescale the time stamps instead of the velocities
            times = [t * speed for t in times]
            A_ref, _ = RN.augment(ref["M"])
            sv = np.linalg.svd(A_ref, compute_uv=False)
            full = A_ref.shape[0] >= A_ref.shape[1] and sv.min() > 1e-9 * sv.max()
        if not full:
            return {"viol": [], "tags": ["vacuous:rank"], "cls": "vac", "outdom": True}
        pf1 = c01.predicted_f1(at, cfg["k"], cm)
        spec = []
        # "swap0": vertex id 0 is given to a junction that has equations (ids 0 / None are easily confused in bookkeeping code)
        jsorted = sorted(at["J"], key=int)
        zero_j = jsorted.index(ref["rows"][len(ref["rows"]) // 2])
        for t in range(L):
            dz = {j: z * (times[t] - times[f]) for j, z in vj.items()}
            vm = cfg["vm%d" % t]
            vm = ["swap", 0, zero_j] if vm == ["swap0"] else vm
            spec.append({"at": at, "k": cfg["k"], "cmap": cm, "post": SC.displace_post(at, dz), "time": times[t], "lab": SC.lab_for(vm)})
        s, infos, ex = SC.build_series(spec)
        if ex is not None:
            return {"viol": [{"what": "ForSys construction raised", "detail": fsutil.exc_str(ex)}], "tags": [], "cls": "exc"}
        rebuild = True
        if cfg.get("pre") == "adimensional_solve":
            SC.solve_frame(s, f, at, infos[f], method=None, allow_negatives=False, solve_kwargs={"b_matrix": "velocity", "adimensional_velocity": True, "velocity_normalization": 2.0})
            rebuild = False
            tags.append("after_adimensional_solve_same_matrix")
        elif cfg.get("pre") == "system_velocity":
            _, exq = fsutil.call(s.get_system_velocity_per_frame)
            # the query builds every frame's matrix with the default options (angle limit pi: nothing is left out at the junctions
            # of a Voronoi geometry, whose openings are all below pi); the judged solve re-uses the matrix it left for this frame
            rebuild = exq is not None or f not in s.force_matrices
            tags.append("after_system_velocity")
        r = SC.solve_frame(s, f, at, infos[f], method=cfg["solver"], allow_negatives=False, solve_kwargs={"b_matrix": "velocity"}, rebuild=rebuild)
        if r.exc is not None:
            return {"viol": [{"what": "dynamic inference raised", "detail": fsutil.exc_str(r.exc)}], "tags": [], "cls": "exc"}
        if None in r.cols or sorted(r.cols) != sorted(ref["cols"]):
            return {"viol": [{"what": "unknowns are not the internal interfaces"}], "tags": [], "cls": "cols"}
        with fsutil.ref_math():
            cpos = {ii: m for m, ii in enumerate(ref["cols"])}
            x = np.array(r.forces, float)
            tx = np.array([Tv[cpos[ii]] for ii in r.cols])
            err = float(np.abs(x - tx).max())
            smin = float(sv.min())
            rows = ref["M"].shape[0]
            tol = 3 * (5e-4 * math.sqrt(rows)) / smin + (1e-8 if cfg["solver"] is None else 2e-3 / smin)
        # sharper and still sound: the right-hand side that was solved is the true junction velocity of each junction's own
        # two rows, up to the 3-decimal rounding
        rec = r.record
        if rec is not None and cfg["solver"] != "lsq_linear":
            jid_of = {vid: j for j, vid in infos[f]["jvid"].items()}
            worst = 0.0
            for vid, row in r.fm.map_vid_to_row.items():
                z = vj.get(jid_of.get(vid))
                if z is None:
                    continue
                worst = max(worst, abs(rec["b"][row] - z.real), abs(rec["b"][row + 1] - z.imag))
            if worst > 5.1e-4 and not pf1:
                viol.append({"what": "velocity term of a junction's own equations differs from displacement / elapsed time by more than the 3-decimal rounding",
                             "detail": {"max_dev": worst, "frame": f, "times": times}})
        # ... and the reported tensions are the certified non-negative optimum of (assembled matrix, that right-hand side)
        if rec is not None and cfg["solver"] != "lsq_linear" and not viol:
            with fsutil.ref_math():
                A_fs, _ = RN.augment(r.M)
                b_fs = rec["b"]
                if A_fs.shape == rec["A"].shape and np.abs(A_fs - rec["A"]).max() <= 1e-12:
                    lam = RN.best_multiplier(A_fs, b_fs, x)
                    z = np.append(x, lam)
                    if cfg["solver"] is None:
                        ok = RN.kkt(A_fs, b_fs, z, 1e-8 * max(1.0, len(x)))["ok"]
                    else:
                        zr = RN.lawson_hanson(A_fs, b_fs)
                        Rx, Rr = np.linalg.norm(A_fs @ z - b_fs), np.linalg.norm(A_fs @ zr - b_fs)
                        ok = x.min() > -1e-6 and Rx ** 2 <= Rr ** 2 * (1 + 1e-4) + (1e-5 * len(x)) ** 2
                    if not ok:
                        viol.append({"what": "reported tensions are not the non-negative least-squares optimum of the assembled dynamic system", "detail": {"solver": cfg["solver"], "path": rec["path"]}})
                else:
                    viol.append({"what": "the system that was solved is not the assembled matrix with the mean-one row"})
        tags.append(cfg["which"])
        if cfg["times"] != "equal":
            tags.append("unequal_times")
        if any(cfg["vm%d" % t] != ["id"] for t in range(L)):
            tags.append("renumbered")
        if any(cfg["vm%d" % t] == ["swap0"] for t in range(L)):
            tags.append("id0_on_junction")
        tags.append("solver:%s" % cfg["solver"])
        if cfg["tvec"][0] == "basis":
            tags.append("basis_vector")
        if pf1:
            if err > tol:
                known.append({"id": "F1", "err": err, "tol": tol, "predicted_flips": pf1})
            tags.append("F1_affected_no_verdict")
        else:
            tags.append("verdict")
            if err > tol:
                viol.append({"what": "dynamic inference does not return the prescribed tensions within the rounding bound",
                             "detail": {"err": err, "tol": tol, "frame": f, "L": L, "times": times, "solver": cfg["solver"], "smin": smin}})
        cls = "%s/%s/%d/%d/%s/%s/%s" % (base, cfg["mob"][0], L, f, cfg["times"], cfg["solver"], cfg["tvec"])
        return {"viol": viol, "known": known, "tags": tags, "cls": cls, "obs": {"err": err, "tol": tol}}


def build(tier, seed):
    if tier == "quick":
        return [Dynamics(["v5x5"], 2, seed)]
    return [Dynamics(["v5x5"], 3, seed), Dynamics(["v6x5", "v6x6p%d" % (seed + 1)], 2, seed)]
