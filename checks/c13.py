"""C13 — velocities are finite differences of tracked vertices over real elapsed time.

Series configurations (motion, length, time stamps, per-frame renumbering, a cell disappearing in a later frame,
b_matrix mode, adimensional on/off, velocity_normalization) within a deviation bound of a centre; in every state, for
EVERY frame and EVERY vertex of it: calculate_velocity = (position of the partner given by the implementation's own
correspondence - position) / (difference of the two time stamps), zero without partner; the right-hand side puts each
used junction's velocity into that junction's own two rows; the adimensional divisor is the mean junction speed and is
what get_system_velocity_per_frame() reports.
"""
import cmath
import math

import numpy as np

from fsmc import bases, tissue as T, fsutil, solvecase as SC
from fsmc.explorer import ProductSystem
from checks import c12

PID = "C13"
RULE = ("configurations of (motion, series length 2..6, time stamps, per-frame renumbering, disappearing cell, b_matrix, adimensional, normalisation) within the deviation bound; "
        "every frame and every vertex checked in each; non-trivial = some vertex moves; classes = config signature")
BOUND = {"quick": "deviation bound 2 on two tissues (every frame x every vertex in each state; time stamps incl. negative ones with 0.0 on a later frame; cm on and off; the right-hand side is read both from set_velocity_matrix and from what ForSys.solve_stress used)", "thorough": "deviation bound 3 on four tissues"}
ASSUMPTIONS = ["the partner of a vertex is taken from the implementation's own correspondence (C12 judges the correspondence itself)",
               "comparison tolerance 1e-9 relative (velocities), 1e-4 absolute on the 4-decimal rounded public velocity matrices"]
REQUIRED_TAGS = {"all": ["unequal_times", "renumbered", "disappearing", "velocity_mode", "static_mode", "adimensional", "normalisation", "last_frame", "no_partner", "id0_junction_renumbered", "rhs_through_solve_stress", "cm"]}

TIMES = {"equal": lambda n: [float(i) for i in range(n)],
         "unequal": lambda n: [0.0, 1.0, 4.0, 4.5, 6.5, 10.0][:n],
         "offset": lambda n: [5.0 + 0.25 * i for i in range(n)],
         "tiny": lambda n: [1e-3 * i for i in range(n)],
         "huge": lambda n: [1e4 * i + 3 for i in range(n)],
         # stamps that start below zero: the value 0.0 falls on a frame that is not the first one (and on the last of two frames)
         "negative": lambda n: [-3.0, 0.0] if n == 2 else [-3.0, -1.0, 0.0, 2.5, 4.0, 4.75][:n]}
VMAPS = [["id"], ["rev"], ["gap", 3, 7], ["off", 10 ** 6], ["rot", 5], ["swap0"], ["stored_rev"]]


class Velocities(ProductSystem):
    chunk = 4

    def __init__(self, tissues, bound):
        self.name = "velocities"
        self._t = tissues
        self.bound = bound

    def bases(self):
        return self._t

    def axes(self, base):
        return {"motion": ["random_like", "flow_d", "shear", "breathe", "rest"], "L": [3, 2, 4, 6], "times": ["equal", "unequal", "offset", "tiny", "huge", "negative"], "cm": [False, True],
                "vm0": VMAPS, "vm1": VMAPS, "vm2": VMAPS, "drop": [None, 1, 2], "b": ["velocity", None], "adim": [False, True], "norm": [1, 0, 2.5],
                "unit": [1.0, 1e3, 1e-3, 512.0]}

    def eval_config(self, base, cfg):
        at = c12.tissue_for(base[0], base[1])
        cm = SC.make_cmap(["m", 0.05, 0.02], 0.2, (0, 0), cfg["unit"], SC.extent_of(bases.get(base[0])))
        pos = c12.junction_positions(at, cm)
        real = c12.real_junctions(at)
        P = [pos[j] for j in real]
        dmin = min(abs(a - b) for i, a in enumerate(P) for b in P[i + 1:])
        ext = max(max(z.real for z in P) - min(z.real for z in P), max(z.imag for z in P) - min(z.imag for z in P))
        cen = sum(P) / len(P)
        lim = 0.3 * min(0.5 * dmin, 0.08 * ext)
        m = cfg["motion"]

        def unit_field(j):
            z = pos[j] - cen
            if m == "rest":
                return 0j
            if m == "flow_d":
                return cmath.exp(0.7j)
            if m == "shear":
                return complex(z.imag, 0)
            if m == "breathe":
                return z
            return cmath.exp(1j * (2.3 * z.real + 1.1 * z.imag)) * (0.6 + 0.4 * math.sin(3 * z.imag))
        uf = {j: unit_field(j) for j in pos}
        umax = max(abs(uf[j]) for j in real) or 1.0
        L = cfg["L"]
        times = TIMES[cfg["times"]](L)
        # positions follow the field with a per-frame amplitude pattern (not proportional to time: velocities differ per frame)
        amp = [0.0, 1.0, 1.7, 2.9, 3.4, 4.6][:L]
        fields = [{j: uf[j] / umax * lim * amp[t] for j in pos} for t in range(L)]
        vmaps = [cfg["vm0"], cfg["vm1"], cfg["vm2"]]
        # "swap0": id 0 is given to an interior junction (so that vertex 0 is a tracked vertex)
        jsorted = sorted(at["J"], key=int)
        inner = min(real, key=lambda j: abs(pos[j] - cen))
        vmaps = [(["swap", 0, jsorted.index(inner)] if v == ["swap0"] else v) for v in vmaps]
        tags, viol = [], []
        # a border cell disappears from frame `drop` on
        ats = [at] * L
        if cfg["drop"] is not None and cfg["drop"] < L:
            adj = T.cell_adjacency(at)
            cells = sorted(at["C"], key=int)
            def bbox_change(c):
                sub_ = T.sub_tissue(at, [x for x in cells if x != c])
                rj = c12.real_junctions(sub_)
                if len(rj) < 3:
                    return 1e9
                Q = [pos[j] for j in rj]
                return math.hypot((max(z.real for z in Q) - min(z.real for z in Q)) - (max(z.real for z in P) - min(z.real for z in P)),
                                  (max(z.imag for z in Q) - min(z.imag for z in Q)) - (max(z.imag for z in P) - min(z.imag for z in P)))
            victim = min(cells, key=lambda c: (round(bbox_change(c), 9), len(adj[c])))
            keep = [c for c in cells if c != victim]
            sub = T.sub_tissue(at, keep)
            for t in range(cfg["drop"], L):
                ats[t] = sub
            tags.append("disappearing")
        spec = []
        for t in range(L):
            a_t = ats[t]
            dz = {j: fields[t][j] for j in a_t["J"]}
            spec.append({"at": a_t, "k": 1, "cmap": cm, "post": SC.displace_post(a_t, dz), "time": times[t], "lab": SC.lab_for(vmaps[t % 3])})
        # cm=True: the library re-centres every frame in place before tracking; positions are read from the frames afterwards
        s, infos, ex = SC.build_series(spec, cm=bool(cfg.get("cm")))
        if cfg.get("cm"):
            tags.append("cm")
        if ex is not None:
            return {"viol": [{"what": "ForSys construction raised", "detail": fsutil.exc_str(ex)}], "tags": tags, "cls": "exc"}
        ts = s.mesh
        for t in range(L):
            fr = s.frames[t]
            last = t == L - 1
            other = t - 1 if last else t + 1
            mp = ts.mapping.get(t - 1 if last else t)
            if mp is None:
                tags.append("untracked_pair_no_verdict")
                continue
            if last:
                inv = {}
                for a, b in mp.items():
                    if b is not None:
                        inv[b] = a
                partner = inv
                tags.append("last_frame")
            else:
                partner = {a: b for a, b in mp.items() if b is not None}
            dt = times[other] - times[t]        # the stamps handed to the frames (not what the library has stored by now)
            for vid, vv in fr.vertices.items():
                got, ex = fsutil.call(ts.calculate_velocity, vid, t)
                if ex is not None:
                    viol.append({"what": "calculate_velocity raised", "detail": {"frame": t, "vertex": vid, "exc": fsutil.exc_str(ex)}})
                    break
                p = partner.get(vid)
                if p is None or p not in s.frames[other].vertices:
                    exp = (0.0, 0.0)
                    tags.append("no_partner")
                else:
                    w = s.frames[other].vertices[p]
                    exp = ((w.x - vv.x) / dt, (w.y - vv.y) / dt)
                    if vid == 0 and p != 0:
                        tags.append("id0_junction_renumbered")
                sc = max(1e-12, abs(exp[0]), abs(exp[1]))
                if abs(got[0] - exp[0]) > 1e-9 * sc or abs(got[1] - exp[1]) > 1e-9 * sc:
                    viol.append({"what": "velocity of a vertex is not (partner position - position) / (difference of the time stamps)",
                                 "detail": {"frame": t, "vertex": vid, "partner": p, "got": [float(got[0]), float(got[1])], "exp": list(exp), "dt": dt}})
                    break
            if viol:
                break
            # right-hand side of frame t
            _, ex = fsutil.call(s.build_force_matrix, when=t, angle_limit=np.inf)
            if ex is not None:
                viol.append({"what": "build_force_matrix raised", "detail": fsutil.exc_str(ex)})
                break
            fm = s.force_matrices[t]
            kw = {"adimensional_velocity": cfg["adim"], "velocity_normalization": cfg["norm"]}
            if cfg["b"]:
                kw["b_matrix"] = cfg["b"]
            res, ex = fsutil.call(fm.set_velocity_matrix, ts, **kw)
            if ex is not None and cfg["adim"] and cfg["b"] == "velocity" and m == "rest":
                tags.append("zero_mean_speed_no_verdict")     # dividing by a mean speed of zero is undefined
                continue
            if ex is not None:
                viol.append({"what": "set_velocity_matrix raised", "detail": fsutil.exc_str(ex)})
                break
            b, avg = res
            b = np.asarray(b, float).ravel()
            vel = {}
            for vid in fm.map_vid_to_row:
                g, _ = fsutil.call(ts.calculate_velocity, vid, t)
                vel[vid] = (float(g[0]), float(g[1]))
            with fsutil.ref_math():
                speeds = [math.hypot(*v) for v in vel.values()]
                mean_speed = float(np.mean(speeds)) if speeds else 1.0
                if cfg["b"] != "velocity":
                    tags.append("static_mode")
                    if np.abs(b).max() != 0 if b.size else False:
                        viol.append({"what": "right-hand side is not zero in static mode", "detail": {"frame": t}})
                    if avg != 1:
                        viol.append({"what": "velocity scale is not 1 in static mode", "detail": avg})
                else:
                    tags.append("velocity_mode")
                    div = 1.0
                    if cfg["adim"] and vel:
                        tags.append("adimensional")
                        div = mean_speed
                        if abs(avg - mean_speed) > 1e-9 * max(1e-12, mean_speed):
                            viol.append({"what": "adimensional divisor is not the mean junction speed of the frame", "detail": {"frame": t, "got": float(avg), "exp": mean_speed}})
                    elif avg != 1:
                        viol.append({"what": "velocity scale is not 1 without adimensional velocities", "detail": float(avg)})
                    if cfg["norm"] != 1:
                        tags.append("normalisation")
                    if div > 0:
                        for vid, row in fm.map_vid_to_row.items():
                            ex_ = (vel[vid][0] / div * cfg["norm"], vel[vid][1] / div * cfg["norm"])
                            sc = max(1e-12, abs(ex_[0]), abs(ex_[1]))
                            if abs(b[row] - ex_[0]) > 1e-9 * sc or abs(b[row + 1] - ex_[1]) > 1e-9 * sc:
                                viol.append({"what": "a junction's velocity components are not the right-hand sides of its own x- and y-equation",
                                             "detail": {"frame": t, "vertex": vid, "row": row, "got": [float(b[row]), float(b[row + 1])], "exp": list(ex_)}})
                                break
                        used = {r for r0 in fm.map_vid_to_row.values() for r in (r0, r0 + 1)}
                        if any(b[i] != 0 for i in range(len(b)) if i not in used):
                            viol.append({"what": "a row that belongs to no used junction has a non-zero right-hand side"})
            if viol:
                break
            # the same right-hand side through the user-facing call: ForSys.solve_stress must hand the series of THIS object to the
            # solve (also at the last frame); what the solve used is left in the public attribute velocity_matrix (4 decimals)
            _, ex = fsutil.call(s.solve_stress, when=t, **kw)
            if ex is not None:
                viol.append({"what": "solve_stress raised", "detail": {"frame": t, "kw": {k_: str(v_) for k_, v_ in kw.items()}, "exc": fsutil.exc_str(ex)}})
                break
            used_b = np.asarray(fm.velocity_matrix, float).ravel()
            tags.append("rhs_through_solve_stress")
            if used_b.shape != b.shape or np.abs(used_b - b).max(initial=0.0) > 0.51e-4 + 1e-9 * np.abs(b).max(initial=0.0):
                viol.append({"what": "the right-hand side used by ForSys.solve_stress is not the junction velocities that set_velocity_matrix gives for this frame",
                             "detail": {"frame": t, "last": bool(last), "used": [float(x) for x in used_b[:6]], "expected": [float(x) for x in b[:6]]}})
                break
        if not viol and m != "rest" and all(v is not None for v in ts.mapping.values()):
            sv, ex = fsutil.call(s.get_system_velocity_per_frame)
            if ex is not None:
                viol.append({"what": "get_system_velocity_per_frame raised", "detail": fsutil.exc_str(ex)})
            else:
                for t in range(L):
                    fm = s.force_matrices[t]
                    mpk = ts.mapping.get(t - 1 if t == L - 1 else t)
                    if mpk is None:
                        continue
                    sp = []
                    for vid in fm.map_vid_to_row:
                        g, _ = fsutil.call(ts.calculate_velocity, vid, t)
                        sp.append(math.hypot(float(g[0]), float(g[1])))
                    exp = float(np.mean(sp)) if sp else 1.0
                    if abs(float(sv[t]) - exp) > 1e-9 * max(1e-12, exp):
                        viol.append({"what": "system velocity of a frame is not the mean junction speed", "detail": {"frame": t, "got": float(sv[t]), "exp": exp}})
                        break
        if cfg["times"] != "equal":
            tags.append("unequal_times")
        if any(v != ["id"] for v in vmaps[:L]):
            tags.append("renumbered")
        cls = fsutil.state_hash(cfg)[:10]
        return {"viol": viol, "tags": sorted(set(tags)), "cls": cls, "nontrivial": m != "rest"}


def build(tier, seed):
    from checks import c07
    small = c07.first_connected("v5x5", 4)
    if tier == "quick":
        return [Velocities([["v5x5", small], ["v5x5", None]], 2)]
    return [Velocities([["v5x5", small], ["v5x4", None], ["v5x5", None], ["v4x4p%d" % (seed + 1), None]], 3)]
