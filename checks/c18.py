"""C18 — coarse-grained stress tensor: symmetric, linear, isotropic for pure pressure.

Two explorations on the real stress_tensor / Frame.calculate_stress_tensor:
 * grid x radius: the full product grid 1..12 x radius {0.5,1,2,4,6} on every tissue (one assignment);
 * assignment histories: sequences (depth <= 3) of (pressure, tension) assignments on ONE live Frame, the tensor being
   evaluated after each (as a user re-solving a frame would); the last evaluation must equal that of a fresh Frame
   carrying only the last assignment, and must be the linear combination of the basis responses.
"""
import math

import numpy as np

from fsmc import bases, tissue as T, fsutil, solvecase as SC

PID = "C18"
RULE = ("states = (tissue, grid, radius) full product; and histories of assignments on one live frame; "
        "non-trivial = some grid cell has a cell centre within the radius; classes = (tissue, grid, radius, assignment history)")
BOUND = {"quick": "2 tissues x grid 1..12 x 5 radii; assignment histories to depth 3 over 8 assignments at 2 (grid, radius) points; 5 length units 1e-6..1e6 x 3 grids x 2 radii x 4 assignments; the same tissue with its cells stored in reversed and interleaved order (ids not in storage order) x 5 grids x 3 radii",
         "thorough": "4 tissues x grid 1..12 x 5 radii x 3 assignments; histories to depth 4; 9 length units 1e-8..1e6 on 2 tissues, histories to depth 2"}
ASSUMPTIONS = ["tolerance 1e-9 relative for linearity / fresh-frame identity (pure arithmetic)"]
REQUIRED_TAGS = {"all": ["empty_grid_cell", "full_grid_cell", "pure_pressure", "linearity", "history", "principal", "grid12", "small_length_unit", "large_length_unit", "recalculated_with_other_grid", "cells_not_in_id_order"]}


_LAB = [None]      # labelling of the frames built by make_frame (set per evaluated state)


def make_frame(base, cells, unit=1.0):
    at = bases.get(base)
    if cells:
        at = T.sub_tissue(at, cells)
    cm = SC.make_cmap(["m", 0.05, 0.02], 0.3, (0, 0), unit, SC.extent_of(bases.get(base)))
    lab = None
    if _LAB[0] == "cells_reversed":
        # cells inserted in the reverse order, with ids that are neither contiguous nor in insertion order
        lab = {"order": sorted(at["C"], key=int)[::-1], "cids": ["gap", 5, 3]}
    elif _LAB[0] == "cells_interleaved":
        cs = sorted(at["C"], key=int)
        lab = {"order": cs[::2] + cs[1::2]}
    with fsutil.quiet():
        v, e, c, info = T.realise(at, k=3, cmap=cm, lab=lab)
        fr = T.frame_of(v, e, c)
    for n, cc in enumerate(fr.cells.values()):
        cc.gt_pressure = 0.8 + 0.01 * n       # reference pressures as a Surface Evolver parse would leave them
    return fr


def assign(fr, a):
    """a = {"p": [..per cell in dict order..], "t": [..per big edge in dict order..]}"""
    for val, c in zip(a["p"], fr.cells.values()):
        c.pressure = float(val)
    for val, be in zip(a["t"], fr.big_edges.values()):
        be.tension = float(val)


def assignment(fr, spec):
    nc, nb = len(fr.cells), len(fr.big_edges)
    p, t = np.zeros(nc), np.zeros(nb)
    kind = spec[0]
    if kind == "zero":
        pass
    elif kind == "p_uniform":
        p[:] = spec[1]
    elif kind == "p_basis":
        p[spec[1] % nc] = 1.0
    elif kind == "t_basis":
        t[spec[1] % nb] = 1.0
    elif kind == "mix":
        for i in range(nc):
            p[i] = 0.3 * math.sin(1.3 * i + spec[1]) - 0.1
        for i in range(nb):
            t[i] = 1.0 + 0.5 * math.cos(0.7 * i + spec[1])
    elif kind == "neg":
        p[:] = -0.7
        t[:] = -1.2
    return {"p": p.tolist(), "t": t.tolist()}


def tensor(fr, grid, radius):
    import forsys.stress_tensor as fst
    with fsutil.quiet():
        sig, centers, bins = fst.stress_tensor(fr, grid, radius)
    return sig, centers, bins


def centres_within(fr, centers, bins, grid, radius):
    """reference support: for every grid cell, is some cell centroid within radius x sqrt(mean area / pi) of the grid centre"""
    cms = [(float(np.mean([v.x for v in c.vertices])), float(np.mean([v.y for v in c.vertices]))) for c in fr.cells.values()]
    areas = []
    for c in fr.cells.values():
        P = [(v.x, v.y) for v in c.vertices]
        n = len(P)
        areas.append(abs(0.5 * sum(P[i][0] * P[(i + 1) % n][1] - P[(i + 1) % n][0] * P[i][1] for i in range(n))))
    R = radius * math.sqrt(np.mean(areas) / math.pi)
    out = {}
    for r in range(grid):
        for c in range(grid):
            cx, cy = centers[0][r], centers[1][c]
            out[(r, c)] = any((cx - x) ** 2 + (cy - y) ** 2 <= R * R * (1 + 1e-12) for x, y in cms)
    return out


def as_grid(sig, grid):
    """dict '{row}{col}' -> matrix, back to (row, col); None if keys collide (grid >= 12)"""
    if len(sig) != grid * grid:
        return None
    return {(r, c): np.array(sig["%d%d" % (r, c)], float) for r in range(grid) for c in range(grid)}


def close(a, b, tol=1e-9):
    s = max(1.0, float(np.abs(a).max()), float(np.abs(b).max()))
    return float(np.abs(a - b).max()) <= tol * s


class Stress:
    chunk = 2

    def __init__(self, name, tissues, grids, radii, specs, depth):
        self.name = name
        self.tissues, self.grids, self.radii, self.specs = tissues, grids, radii, specs
        self.bound = depth

    def initial(self):
        return [{"t": ti, "g": g, "r": r, "ops": [0]} for ti in range(len(self.tissues)) for g in self.grids for r in self.radii]

    def actions(self, d):
        return [[i] for i in range(len(self.specs))]

    def step(self, d, a):
        return dict(d, ops=d["ops"] + [a[0]])

    def evaluate(self, d):
        base, cells = self.tissues[d["t"]][:2]
        unit = self.tissues[d["t"]][2] if len(self.tissues[d["t"]]) > 2 else 1.0
        _LAB[0] = self.tissues[d["t"]][3] if len(self.tissues[d["t"]]) > 3 else None
        grid, radius = d["g"], d["r"]
        fr = make_frame(base, cells, unit)
        viol, known, tags = [], [], []
        if _LAB[0]:
            tags.append("cells_not_in_id_order")
        if unit != 1.0:
            tags.append("small_length_unit" if unit < 1 else "large_length_unit")
        if len(d["ops"]) > 1:
            tags.append("history")
        last = None
        for oi in d["ops"]:
            a = assignment(fr, self.specs[oi])
            assign(fr, a)
            res, ex = fsutil.call(tensor, fr, grid, radius)
            if ex is not None:
                return {"viol": [{"what": "stress_tensor raised", "detail": fsutil.exc_str(ex)}], "tags": tags, "cls": "exc"}
            last = (a, res)
        a, (sig, centers, bins) = last
        if grid >= 12:
            tags.append("grid12")
        G = as_grid(sig, grid)
        if G is None:
            distinct_keys = len({"%d%d" % (r, c) for r in range(grid) for c in range(grid)})
            if grid >= 12 and len(sig) == distinct_keys:
                known.append({"id": "F7", "entries": len(sig), "expected": grid * grid})
                return {"viol": viol, "known": known, "tags": tags, "cls": "%d/%d/%s" % (d["t"], grid, radius)}
            viol.append({"what": "not one tensor per grid cell", "detail": {"entries": len(sig), "grid": grid}})
            return {"viol": viol, "tags": tags, "cls": "bad"}
        sup = centres_within(fr, centers, bins, grid, radius)
        spec = self.specs[d["ops"][-1]]
        for rc, M in G.items():
            if not close(M, M.T, 1e-12):
                viol.append({"what": "tensor is not symmetric", "detail": {"cell": rc, "M": M.tolist()}})
                break
            if not sup[rc]:
                tags.append("empty_grid_cell")
                if np.abs(M).max() != 0:
                    viol.append({"what": "tensor is not zero where no cell centre lies within the averaging radius", "detail": {"cell": rc, "M": M.tolist()}})
                    break
            else:
                tags.append("full_grid_cell")
                if spec[0] == "p_uniform":
                    tags.append("pure_pressure")
                    if not close(M, -spec[1] * np.eye(2)):
                        viol.append({"what": "tensor is not minus p times the identity for uniform pressure and zero tensions", "detail": {"cell": rc, "M": M.tolist(), "p": spec[1]}})
                        break
        # fresh frame with only the last assignment (history independence)
        fr2 = make_frame(base, cells, unit)
        assign(fr2, a)
        res2, ex = fsutil.call(tensor, fr2, grid, radius)
        if ex is not None:
            return {"viol": [{"what": "stress_tensor raised on a fresh frame", "detail": fsutil.exc_str(ex)}], "tags": tags, "cls": "exc"}
        sig2 = res2[0]
        G2 = as_grid(sig2, grid)
        for rc in G:
            if not close(G[rc], G2[rc]):
                viol.append({"what": "tensor evaluated after earlier evaluations on the same frame differs from a fresh frame with the same pressures and tensions",
                             "detail": {"cell": rc, "live": G[rc].tolist(), "fresh": G2[rc].tolist(), "ops": [self.specs[i] for i in d["ops"]]}})
                break
        # joint linearity: response to the assignment = sum of responses to its pressure part and its tension part,
        # and (for the mix) = sum over unit basis responses
        if spec[0] in ("mix", "neg") and not viol:
            tags.append("linearity")
            frp = make_frame(base, cells, unit)
            assign(frp, {"p": a["p"], "t": [0.0] * len(a["t"])})
            rp, ex = fsutil.call(tensor, frp, grid, radius)
            if ex is not None:
                return {"viol": [{"what": "stress_tensor raised with zero tensions", "detail": fsutil.exc_str(ex)}], "tags": tags, "cls": "exc"}
            Sp = as_grid(rp[0], grid)
            frt = make_frame(base, cells, unit)
            assign(frt, {"p": [0.0] * len(a["p"]), "t": a["t"]})
            rt, ex = fsutil.call(tensor, frt, grid, radius)
            if ex is not None:
                return {"viol": [{"what": "stress_tensor raised with zero pressures", "detail": fsutil.exc_str(ex)}], "tags": tags, "cls": "exc"}
            St = as_grid(rt[0], grid)
            fr3 = make_frame(base, cells, unit)
            assign(fr3, {"p": [2.5 * x for x in a["p"]], "t": [2.5 * x for x in a["t"]]})
            r3, ex = fsutil.call(tensor, fr3, grid, radius)
            if ex is not None:
                return {"viol": [{"what": "stress_tensor raised", "detail": fsutil.exc_str(ex)}], "tags": tags, "cls": "exc"}
            S3 = as_grid(r3[0], grid)
            for rc in G:
                if not close(G2[rc], Sp[rc] + St[rc]) or not close(S3[rc], 2.5 * G2[rc]):
                    viol.append({"what": "tensor is not jointly linear in pressures and tensions", "detail": {"cell": rc}})
                    break
        # principal stresses
        if not viol:
            if len(d["ops"]) % 2 == 0 or grid % 2 == 0:
                # an earlier evaluation on the same frame with ANOTHER grid and radius: the report below must be that of the last call only
                fsutil.call(fr2.calculate_stress_tensor, grid + 1, radius * 0.5)
                tags.append("recalculated_with_other_grid")
            _, ex = fsutil.call(fr2.calculate_stress_tensor, grid, radius)
            if ex is not None:
                viol.append({"what": "calculate_stress_tensor raised", "detail": fsutil.exc_str(ex)})
            else:
                tags.append("principal")
                ps = fr2.principal_stress
                if len(ps) != grid * grid:
                    viol.append({"what": "principal stresses: not one entry per grid cell", "detail": {"entries": len(ps), "grid": grid}})
                else:
                    for r in range(grid):
                        for c in range(grid):
                            val = ps.get((centers[0][r], centers[1][c]))
                            if val is None:
                                viol.append({"what": "principal stresses are not keyed by the grid centres", "detail": [r, c]})
                                break
                            w, V = val
                            with fsutil.ref_math():
                                ew = np.sort(np.linalg.eigvalsh(G2[(r, c)]))
                                if not close(np.sort(np.real(w)), ew):
                                    viol.append({"what": "principal stresses are not the eigenvalues of the tensor at the grid centre", "detail": {"cell": [r, c], "got": list(map(float, np.real(w))), "exp": ew.tolist()}})
                                    break
                                if not close(G2[(r, c)] @ V, V * w):
                                    viol.append({"what": "principal directions are not eigenvectors of the tensor", "detail": [r, c]})
                                    break
                        if viol:
                            break
        cls = "%d/%d/%s/%s" % (d["t"], grid, radius, ",".join(str(i) for i in d["ops"]))
        return {"viol": viol, "known": known, "tags": sorted(set(tags)), "cls": cls, "nontrivial": "full_grid_cell" in tags}

    def check_edge(self, d, a, d2, r, r2):
        return [], []


SPECS = [["mix", 0.4], ["zero"], ["p_uniform", 1.7], ["p_basis", 1], ["t_basis", 2], ["mix", 2.2], ["neg"], ["p_uniform", -0.6]]
UNIT_SPECS = [["p_uniform", 1.7], ["mix", 0.4], ["neg"], ["p_uniform", -0.6]]


def build(tier, seed):
    if tier == "quick":
        return [Stress("grid-x-radius", [["v5x5", None], ["v5x4p%d" % (seed + 1), None]], list(range(1, 13)), [0.5, 1, 2, 4, 6], SPECS, 0),
                Stress("grid-x-radius-pure-pressure", [["v5x5", None]], [1, 2, 3, 5, 8, 11], [0.5, 2, 6], [["p_uniform", 1.7]], 0),
                # cells stored in another order than their ids (the tensor is a sum over cells: it must not care)
                Stress("cell-order", [["v5x5", None, 1.0, "cells_reversed"], ["v5x5", None, 1.0, "cells_interleaved"]], [1, 2, 3, 5, 8], [0.5, 2, 6], SPECS, 0),
                Stress("length-units", [["v5x5", None, u] for u in (1e-6, 1e-5, 1e-3, 1e3, 1e6)], [1, 3, 6], [0.5, 2], UNIT_SPECS, 1),
                Stress("assignment-histories", [["v5x4", None]], [3], [1.0, 0.4], SPECS, 2)]
    return [Stress("grid-x-radius", [["v5x5", None], ["v6x5", None], ["v6x6", None], ["v5x4p%d" % (seed + 1), None]], list(range(1, 13)), [0.5, 1, 2, 4, 6], SPECS, 1),
            Stress("length-units", [[b, None, u] for b in ("v5x5", "v6x5") for u in (1e-8, 1e-6, 1e-5, 1e-4, 1e-3, 1e-2, 1e2, 1e3, 1e6)], [1, 2, 3, 6, 9], [0.5, 1, 2, 6], UNIT_SPECS, 2),
            Stress("cell-order", [[b, None, 1.0, l] for b in ("v5x5", "v6x5") for l in ("cells_reversed", "cells_interleaved")], list(range(1, 13)), [0.5, 1, 2, 6], SPECS, 1),
            Stress("assignment-histories", [["v5x4", None], ["v5x5", None]], [3, 5], [1.0, 0.4], SPECS, 3)]
