"""C14 — Surface Evolver dumps are parsed faithfully.

Dumps are written by an independent serialiser (fsmc/ref/sedump.py) from generated tissues; the parser's output is
compared with the data handed to the serialiser. Configuration space (deviation-bounded around a centre, plus the
full product wrap width x edge-sign policy x tail style): tissue x id scheme x sign policy x wrap width (every width
from 1 edge per line to loop length + 1) x density form x orphans (incl. an unattached vertex hanging from a tissue vertex by one edge, written in either order) x coordinate magnitude x line endings x k.
"""
import math
import os
import shutil
import tempfile

import numpy as np

from fsmc import bases, tissue as T, fsutil
from fsmc.explorer import ProductSystem
from fsmc.ref import sedump, mesh as RM

PID = "C14"
RULE = ("configurations of (tissue, id scheme, edge-sign policy, wrap width, tail style, density form, orphans, magnitude, EOL, k); "
        "non-trivial = at least one face wraps over several lines or some record deviates from the plain form; classes = config signature")
BOUND = {"quick": "deviation bound 2 around the centre on 3 sub-tissues of a 7-cell base + full product (all wrap widths x 3 sign policies x 2 tail styles) on one",
         "thorough": "deviation bound 2 on all connected sub-tissues of a 7-cell base (>= 2 cells), full wrap x sign x tail x ids product on three tissues"}
ASSUMPTIONS = ["dumps are laid out like the shipped ones: section headers, one blank line before the next header, two-token area comment closing every face",
               "coordinates are compared after rounding to 3 decimals, densities and multipliers to 4"]
REQUIRED_TAGS = {"all": ["wrapped", "negative_refs", "no_density", "orphans", "gaps", "crlf", "gt_checked", "single_line_face", "exponent_notation"]}

IDS = [["seq"], ["gap", 3, 5], ["rev"], ["big", 100000]]
SIGNS = ["asbuilt", "reversed_loops", "alternating", "flip_edges"]
DENS = [["all"], ["none"], ["missing", 0], ["missing", -1], ["missing", "mid"], ["orig_all"], ["orig_only", 0], ["bare", 0], ["bare", "mid"], ["varying"]]
ORPH = ["none", "vertices", "vertices_edges", "path", "hanging"]
MAG = [1.0, 1e-3, 1e5]


def idmap(spec, n):
    if spec[0] == "seq":
        return [i + 1 for i in range(n)]
    if spec[0] == "gap":
        return [i * spec[1] + spec[2] for i in range(n)]
    if spec[0] == "rev":
        return [n - i for i in range(n)]
    return [spec[1] + 7 * i for i in range(n)]


def generate(at, cfg):
    """returns (vertices, edges, faces, bodies, extra_v, extra_e, expect)"""
    cmap = T.CMap([T.mob(0.04 + 0.01j), T.aff(cfg["mag"], 0.3 * cfg["mag"])])
    if cfg.get("origin"):
        # translate the whole tissue so that one junction lands a few 1e-5 from the origin (or 1e16 away): its coordinates are
        # then written in exponent notation by any serialiser
        j0 = sorted(at["J"], key=int)[0]
        z0 = cmap(T.zc(at["J"][j0]))
        target = complex(4e-05, -2.5e-05) if cfg["origin"] == "tiny" else complex(1e16, -3e16)
        cmap = cmap.then(T.aff(1.0, target - z0))
    jpos, ipts = T.geometry(at, cfg["k"], cmap)
    jids = sorted(at["J"], key=int)
    coords = [jpos[j] for j in jids]
    nat_j = {j: i for i, j in enumerate(jids)}
    chains = []
    for ii, pts in enumerate(ipts):
        it = at["I"][ii]
        ch = [nat_j[it["a"]]]
        for m in range(1, len(pts) - 1):
            ch.append(len(coords))
            coords.append(pts[m])
        ch.append(nat_j[it["b"]])
        chains.append(ch)
    nv = len(coords)
    vid = idmap(cfg["ids"], nv)
    segs = []
    seg_of = {}
    for ii, ch in enumerate(chains):
        for m in range(len(ch) - 1):
            seg_of[(ch[m], ch[m + 1])] = (len(segs), 1)
            seg_of[(ch[m + 1], ch[m])] = (len(segs), -1)
            segs.append((ch[m], ch[m + 1], ii))
    eid = idmap(cfg["ids"], len(segs))
    flip = [cfg["sign"] == "flip_edges" and (n % 2 == 0) for n in range(len(segs))]
    dens = {}
    forms = []
    nseg = len(segs)
    for n, (u, v, ii) in enumerate(segs):
        d = 1.0 + 0.0137 * ii + (0.00211 * (n % 5) if cfg["dens"][0] == "varying" else 0.0)
        form = ("density", d)
        kind = cfg["dens"][0]
        pick = cfg["dens"][1] if len(cfg["dens"]) > 1 else None
        idx = None if pick is None else (nseg // 2 if pick == "mid" else pick % nseg)
        if kind == "none":
            form = ("original", n + 1)
        elif kind == "missing" and n == idx:
            form = ("original", n + 1)
        elif kind == "orig_all":
            form = ("density_original", d, n + 1)
        elif kind == "orig_only" and n == idx:
            form = ("original", 17)
        elif kind == "bare" and n == idx:
            form = ("bare",)
        forms.append(form)
        dens[n] = round(form[1], 4) if form[0] in ("density", "density_original") else 1
    vertices = [(vid[i], coords[i].real, coords[i].imag) for i in range(nv)]
    edges = []
    for n, (u, v, ii) in enumerate(segs):
        a, b = (v, u) if flip[n] else (u, v)
        edges.append((eid[n], vid[a], vid[b], forms[n]))
    cids = sorted(at["C"], key=int)
    cid_out = idmap(["seq"] if cfg["ids"][0] != "gap" else ["gap", 2, 1], len(cids))
    faces, bodies, exp_cells = [], [], {}
    for ci, c in enumerate(cids):
        cyc = []
        for ii, dr in at["C"][c]:
            ch = chains[ii] if dr == 1 else chains[ii][::-1]
            cyc += ch[:-1]
        rev = cfg["sign"] == "reversed_loops" or (cfg["sign"] == "alternating" and ci % 2 == 1)
        if rev:
            cyc = cyc[::-1]
        loop = []
        n = len(cyc)
        for m in range(n):
            u, v = cyc[m], cyc[(m + 1) % n]
            s, dr = seg_of[(u, v)]
            if flip[s]:
                dr = -dr
            loop.append(eid[s] * dr)
        lm = 0.05 + 0.0123456 * ci
        faces.append((cid_out[ci], loop, -500.0 if rev else 500.0))
        bodies.append((cid_out[ci], cid_out[ci] * (-1 if rev else 1), lm))
        exp_cells[cid_out[ci]] = {"cycle": [vid[x] for x in cyc], "p": round(lm, 4)}
    extra_v, extra_e = [], []
    base_v = max(vid) + 11
    base_e = max(eid) + 13
    far = 50.0 * cfg["mag"]
    if cfg["orph"] in ("vertices", "vertices_edges", "path"):
        extra_v = [(base_v + i, far + i, far - 2 * i) for i in range(4)]
    if cfg["orph"] == "vertices_edges":
        extra_e = [(base_e, base_v, base_v + 1, ("density", 2.5)), (base_e + 1, base_v + 2, base_v + 3, ("density", 2.5))]
    if cfg["orph"] == "path":
        # u2 - u0 - u1 - u3 with the middle edge carrying the highest id
        extra_e = [(base_e, base_v + 2, base_v, ("density", 2.5)), (base_e + 1, base_v + 1, base_v + 3, ("density", 2.5)), (base_e + 2, base_v, base_v + 1, ("density", 2.5))]
    if cfg["orph"] == "hanging":
        # two unattached vertices, each joined by ONE edge to a vertex of the tissue (a vertex with two mesh edges where there is one),
        # the record written once as 'loose tissue' and once as 'tissue loose': these edges belong to no face and must vanish
        # without a trace on the tissue vertex
        deg = {}
        for (u, v, ii) in segs:
            deg[u] = deg.get(u, 0) + 1
            deg[v] = deg.get(v, 0) + 1
        two = [x for x in sorted(deg) if deg[x] == 2] or sorted(deg)
        extra_v = [(base_v + i, far + i, far - 2 * i) for i in range(2)]
        extra_e = [(base_e, base_v, vid[two[0]], ("density", 2.5)), (base_e + 1, vid[two[len(two) // 2]], base_v + 1, ("density", 2.5))]
    expect = {"v": {vid[i]: (round(coords[i].real, 3), round(coords[i].imag, 3)) for i in range(nv)},
              "e": {eid[n]: ((vid[v], vid[u]) if flip[n] else (vid[u], vid[v]), dens[n]) for n, (u, v, ii) in enumerate(segs)},
              "c": exp_cells, "chains": [[vid[x] for x in ch] for ch in chains],
              "chain_dens": [float(np.mean([dens[seg_of[(ch[m], ch[m + 1])][0]] for m in range(len(ch) - 1)])) for ch in chains]}
    return vertices, edges, faces, bodies, extra_v, extra_e, expect


def judge(path, expect, cfg, tags):
    import forsys.surface_evolver as fse
    V = []
    se, ex = fsutil.call(fse.SurfaceEvolver, path)
    if ex is not None:
        if cfg["dens"][0] == "bare":
            return [{"F11": True, "what": "parser raised on an edge record without attributes", "detail": fsutil.exc_str(ex)}]
        return [{"what": "parser raised", "detail": fsutil.exc_str(ex)}]
    v, e, c = se.vertices, se.edges, se.cells
    if set(v) != set(expect["v"]):
        V.append({"what": "parsed vertices are not exactly the vertices that belong to a face", "detail": {"extra": sorted(set(v) - set(expect["v"]))[:5], "missing": sorted(set(expect["v"]) - set(v))[:5]}})
    else:
        for k, (x, y) in expect["v"].items():
            if abs(v[k].x - x) > 1e-9 * max(1, abs(x)) or abs(v[k].y - y) > 1e-9 * max(1, abs(y)) or v[k].id != k:
                V.append({"what": "vertex coordinates are not the recorded ones rounded to 3 decimals", "detail": {"id": k, "got": [v[k].x, v[k].y], "exp": [x, y]}})
                break
    if set(e) != set(expect["e"]):
        V.append({"what": "parsed mesh edges are not exactly the edges that belong to a face", "detail": {"extra": sorted(set(e) - set(expect["e"]))[:5], "missing": sorted(set(expect["e"]) - set(e))[:5]}})
    else:
        for k, ((a, b), d) in expect["e"].items():
            if {e[k].v1.id, e[k].v2.id} != {a, b}:
                V.append({"what": "mesh edge does not join the recorded vertices", "detail": {"id": k, "got": [e[k].v1.id, e[k].v2.id], "exp": [a, b]}})
                break
            if abs(e[k].gt - d) > 1e-12:
                V.append({"what": "reference tension is not the recorded density (4 decimals; 1 if absent)", "detail": {"id": k, "got": e[k].gt, "exp": d}})
                break
    if set(c) != set(expect["c"]):
        V.append({"what": "parsed cells are not one per face", "detail": {"got": sorted(c)[:10], "exp": sorted(expect["c"])[:10]}})
    else:
        for k, ec in expect["c"].items():
            got = [w.id for w in c[k].vertices]
            if got != ec["cycle"]:
                V.append({"what": "cell cycle does not follow the face's signed edge loop", "detail": {"cell": k, "got": got[:20], "exp": ec["cycle"][:20]}})
                break
            if c[k].gt_pressure is None or abs(c[k].gt_pressure - ec["p"]) > 1e-12:
                V.append({"what": "reference pressure is not the body's Lagrange multiplier rounded to 4 decimals", "detail": {"cell": k, "got": c[k].gt_pressure, "exp": ec["p"]}})
                break
    if V:
        return V
    prob = RM.check_mesh(v, e, c)
    if prob:
        V.append({"what": "parsed mesh is inconsistent", "detail": prob[:3]})
        return V
    if cfg.get("origin") == "huge":
        return V       # at 1e16 neighbouring vertices coincide in floating point: only the parse itself is judged
    import forsys.frames as ff
    fr, ex = fsutil.call(ff.Frame, 0, v, e, c, time=0.0, gt=True)
    if ex is not None:
        V.append({"what": "Frame construction on the parsed mesh raised", "detail": fsutil.exc_str(ex)})
        return V
    df, ex = fsutil.call(fr.get_gt_tensions, with_border=True)
    if ex is None and len(fr.big_edges_list):
        tags.append("gt_checked")
        # an interface of the frame may merge several generated interfaces (degree-2 vertices on the border): compare per mesh edge
        seg_d = {}
        for k, ((a, b), d) in expect["e"].items():
            seg_d[frozenset((a, b))] = d
        for beid, gt in zip(df["id"], df["gt"]):
            ids = fr.big_edges[int(beid)].get_vertices_ids()
            m = float(np.mean([seg_d[frozenset((ids[i], ids[i + 1]))] for i in range(len(ids) - 1)]))
            if abs(float(gt) - m) > 1e-9:
                V.append({"what": "interface reference tension is not the mean density of its mesh edges", "detail": {"interface": ids[:8], "got": float(gt), "exp": m}})
                break
        if sorted(int(x) for x in df["id"]) != sorted(fr.big_edges):
            V.append({"what": "the reference-tension table (with_border=True) does not list every interface of the frame exactly once",
                      "detail": {"listed": sorted(int(x) for x in df["id"])[:12], "interfaces": sorted(fr.big_edges)[:12]}})
        # the default call (borders left out): the same values, for exactly the interfaces that are not external
        df2, ex2 = fsutil.call(fr.get_gt_tensions)
        if ex2 is not None:
            V.append({"what": "get_gt_tensions() raised", "detail": fsutil.exc_str(ex2)})
        else:
            tags.append("gt_default_checked")
            full = {int(b): float(g) for b, g in zip(df["id"], df["gt"])}
            exp_ids = sorted(b for b, be in fr.big_edges.items() if not be.external)
            got = {int(b): float(g) for b, g in zip(df2["id"], df2["gt"])}
            if sorted(got) != exp_ids or any(abs(got[b] - full[b]) > 1e-12 for b in got if b in full):
                V.append({"what": "get_gt_tensions() without borders is not the with_border table restricted to the non-external interfaces",
                          "detail": {"listed": sorted(got)[:12], "expected": exp_ids[:12]}})
    return V


_TMP = None


def tmpdir():
    global _TMP
    if _TMP is None or not os.path.isdir(_TMP):
        _TMP = tempfile.mkdtemp(prefix="c14_")
        import atexit
        atexit.register(shutil.rmtree, _TMP, True)
    return _TMP


class Dumps(ProductSystem):
    chunk = 4

    def __init__(self, name, tissues, bound, full=False):
        self.name = name
        self._t = tissues
        self.bound = bound
        self.full = full

    def bases(self):
        return self._t

    def abstract(self, base):
        at = bases.get(base[0])
        return T.sub_tissue(at, base[1]) if base[1] else at

    def maxloop(self, base, k):
        at = self.abstract(base)
        return max(sum(1 + k for _ in cyc) for cyc in at["C"].values())

    def axes(self, base):
        ml = self.maxloop(base, 2)
        ax = {"wrap": [10] + [w for w in range(1, ml + 2) if w != 10],
              "sign": SIGNS, "tail": ["own", "inline"]}
        if not self.full:
            ax.update({"ids": IDS, "dens": DENS, "orph": ORPH, "mag": MAG, "eol": ["\n", "\r\n"], "k": [2, 0, 5], "origin": [None, "tiny", "huge"],
                       "forder": ["asbuilt", "reversed", "sorted", "faces_reversed"]})     # order of the records inside each section of the file
        else:
            ax.update({"ids": IDS[:2]})
        return ax

    def eval_config(self, base, cfg):
        cfg = dict({"ids": ["seq"], "dens": ["all"], "orph": "none", "mag": 1.0, "eol": "\n", "k": 2, "origin": None, "forder": "asbuilt"}, **cfg)
        at = self.abstract(base)
        vertices, edges, faces, bodies, xv, xe, expect = generate(at, cfg)
        if cfg["forder"] == "reversed":
            vertices, edges, faces, bodies = list(vertices)[::-1], list(edges)[::-1], list(faces)[::-1], list(bodies)[::-1]
        elif cfg["forder"] == "sorted":
            vertices, edges, faces, bodies = (sorted(vertices, key=lambda r: r[0]), sorted(edges, key=lambda r: r[0]),
                                              sorted(faces, key=lambda r: r[0]), sorted(bodies, key=lambda r: r[0]))
        elif cfg["forder"] == "faces_reversed":
            faces, bodies = list(faces)[::-1], list(bodies)[::-1]
        path = os.path.join(tmpdir(), "d_%d_%s.dmp" % (os.getpid(), fsutil.state_hash([base, cfg])))
        sedump.write_dump(path, vertices, edges, faces, bodies, wrap=cfg["wrap"], tail=cfg["tail"], eol=cfg["eol"], extra_vertices=xv, extra_edges=xe)
        tags, known = [], []
        try:
            V = judge(path, expect, cfg, tags)
        finally:
            os.remove(path)
        viol = []
        for x in V:
            if x.get("F11"):
                known.append({"id": "F11", "detail": x["detail"]})
            else:
                viol.append(x)
        if any(len(f[1]) > cfg["wrap"] for f in faces):
            tags.append("wrapped")
        if any(len(f[1]) < cfg["wrap"] or (len(f[1]) == cfg["wrap"] and cfg["tail"] == "inline") for f in faces):
            tags.append("single_line_face")
        if any(x < 0 for f in faces for x in f[1]):
            tags.append("negative_refs")
        if cfg["dens"][0] in ("none", "missing", "orig_only", "bare"):
            tags.append("no_density")
        if cfg["orph"] != "none":
            tags.append("orphans")
        if cfg["ids"][0] == "gap":
            tags.append("gaps")
        if cfg["eol"] == "\r\n":
            tags.append("crlf")
        if any("e" in repr(float(x)) for v_ in vertices for x in v_[1:]):
            tags.append("exponent_notation")
        cls = fsutil.state_hash([base[1], {k: v for k, v in cfg.items()}])[:10]
        return {"viol": viol, "known": known, "tags": tags, "cls": cls, "nontrivial": "wrapped" in tags or cfg["dens"] != ["all"] or cfg["orph"] != "none"}


class FullProduct(Dumps):
    bound = 4

    def __init__(self, name, tissues):
        Dumps.__init__(self, name, tissues, 4, full=True)


def build(tier, seed):
    subs = T.connected_subsets(bases.get("v5x4"), min_size=2)
    if tier == "quick":
        pick = [subs[0], subs[len(subs) // 4], subs[len(subs) // 2], subs[3 * len(subs) // 4], subs[-1]]
        return [Dumps("dumps-d2", [["v5x4", S] for S in pick] + [["v4x4p%d" % (seed + 1), None]], 2),
                FullProduct("wrap-x-sign-x-tail-x-ids", [["v5x4", subs[len(subs) // 3]]])]
    return [Dumps("dumps-d2", [["v5x4", S] for S in subs] + [["v5x5", None], ["v4x4p%d" % (seed + 1), None]], 2),
            FullProduct("wrap-x-sign-x-tail-x-ids", [["v5x4", subs[len(subs) // 3]], ["v5x4", subs[-1]], ["v5x5", None]])]
