"""C05 — reported tensions are the non-negative least-squares optimum with mean one.

Instances: (tissue family) x (right-hand side) x allow_negatives x method, enumerated completely.
Tissue families: equilibrium bases, smoothly deformed (non-equilibrium) ones at three amplitudes x four
patterns, ill-scaled copies, every connected sub-tissue of a base (wide / rank-deficient systems), every
tissue obtained by deleting one or two cells (contains the square systems that take the inversion path).
Oracle: KKT certificate of the reference augmented system built from the PUBLIC matrix, reference
Lawson-Hanson solution when the minimiser is unique; hook record cross-checked against the public matrix.
"""
import cmath
import itertools
import math

import numpy as np

from fsmc import bases, tissue as T, fsutil, solvecase as SC
from fsmc.explorer import ProductSystem, ListSystem
from fsmc.ref import nnls as RN

import os
REPO = os.environ.get("FORSYS_REPO", "/repo")
PID = "C05"
RULE = ("instances = tissue (equilibrium | deformed amp x pattern | scaled | sub-tissue | cell deletions) x rhs (static | velocity) x allow_negatives x method; "
        "non-trivial = at least one junction row and one unknown; classes = (rows, cols, path, rhs, method, active-set size)")
BOUND = {"quick": "3 bases x {equilibrium, 3 amplitudes x 4 patterns, 2 scales} with deviation bound 2 (bound 3 on the smallest base) over 10 axes: variant, right-hand side {static, velocity, velocity with a fast common drift}, allow_negatives, 4 methods, map, cell order, angle limit, point counts (uniform / two-point interfaces among sampled ones), options (omitted / spelled out at their defaults / use_std / initial conditions); a single strongly unbalanced junction at every position (240 bumps, d=2); shipped dumps; all sub-tissues of a 7-cell base and all 1- and 2-cell deletions of an 11-cell base (d=1)",
         "thorough": "5 bases with deviation bound 4 over the 10 axes of the quick tier (about 2.2e5 configurations; bound 5 was dropped when the point-count and drift axes were added: 7.4e5), bumps d=3, all sub-tissues of an 11-cell base with d=1 and all 1-, 2- and 3-cell deletions with d=2 (the sub-tissue product with d=2, 2.5e5 configurations, made the tier run for more than 70 minutes and was cut back), shipped dumps x frames x right-hand sides x methods"}
ASSUMPTIONS = ["KKT tolerance 1e-9 x scale (default path); iterative back-ends: feasible and cost within (1+1e-4) ('lsq') / (1+1e-6) ('lsq_linear') of the certified optimum; scale = max(1,|A|max) x max(1,|b|max)",
               "'lsq_linear' is judged on consistent systems only (as the statement says)",
               "with allow_negatives=True a solution with negative tensions is only required to solve the square system exactly"]
REQUIRED_TAGS = {"all": ["rawinv_only_last_negative", "rawinv_only_first_negative", "rawinv_only_multiplier_negative", "path:inv", "path:nnls-fallback", "path:lsq", "path:lsq_linear", "rhs:velocity", "unique", "square", "wide", "active_bound", "noisy", "fixture", "angle_limited", "defaults_spelled_out", "initial_condition:zero_at", "initial_condition:previous_with_exact_zero", "use_std", "rhs:velocity_drift", "mixed_point_counts"]}


KW_MORE = [{"initial_condition": ["zero_at", 3]}, {"initial_condition": ["ramp"]}, {"initial_condition": ["previous", 0.3, 1]}, {"initial_condition": ["zero_every", 3, 0]}]


def judge(r, method, allow_negatives, consistent, viol, known, tags):
    """r: Solved. Appends to viol/known/tags."""
    with fsutil.ref_math():
        x = np.array(r.forces, float)
        M = r.M
        if len(x) != M.shape[1] and int((x == -1).sum()) == len(x) - M.shape[1]:
            x = x[x != -1]          # interfaces excluded by an angle limit are reported as -1 at their own position (C16)
            tags.append("angle_limited")
        if len(x) != M.shape[1]:
            viol.append({"what": "the reported vector is not one value per unknown (with -1 at the positions of the interfaces left out of the system)",
                         "detail": {"reported": len(r.forces), "minus_ones": int((np.array(r.forces, float) == -1).sum()), "unknowns": int(M.shape[1])}})
            return
        rec = r.record
        if method == "fix_stress":
            return
        if rec is None:
            viol.append({"what": "hook record missing after solve"})
            return
        path = rec["path"]
        tags.append("path:" + path)
        nrows, ncols = M.shape
        if nrows + 1 == ncols + 1:
            tags.append("square")
        elif nrows < ncols:
            tags.append("wide")
        # ---- hook record vs independent reconstruction from public attributes
        vel = np.array(r.fm.velocity_matrix, float).ravel() if r.fm.velocity_matrix is not None else np.zeros(nrows)
        A_ref, b_ref = RN.augment(M, vel)
        if method == "lsq_linear":
            pass  # this back-end solves the normal-equation form; its own record is not the augmented system
        else:
            if rec["A"].shape != A_ref.shape or np.abs(rec["A"] - A_ref).max() > 1e-12:
                viol.append({"what": "augmented system recorded by the hook differs from [M 1; 1 0] built from the public matrix"})
                return
            if np.abs(rec["b"] - b_ref).max() > 5.6e-4:
                viol.append({"what": "right-hand side recorded by the hook differs from the public velocity term by more than its rounding",
                             "detail": float(np.abs(rec["b"] - b_ref).max())})
                return
            b_ref = rec["b"]      # the rounded right-hand side that was actually solved
            if len(rec["x"]) != ncols + 1 or np.abs(rec["x"][:-1] - x).max() > 1e-12 * max(1.0, np.abs(x).max()):
                viol.append({"what": "reported tensions differ from the raw solution vector", "detail": {"raw": rec["x"][:6].tolist(), "reported": x[:6].tolist()}})
        if method is None and A_ref.shape[0] == A_ref.shape[1]:
            try:
                zi = np.linalg.solve(A_ref, b_ref)
                negs = [i for i in range(ncols) if zi[i] < -1e-12]
                if negs == [ncols - 1]:
                    tags.append("rawinv_only_last_negative")
                elif negs == [0]:
                    tags.append("rawinv_only_first_negative")
                if negs:
                    tags.append("rawinv_some_negative")
                if zi[-1] < -1e-12 and not negs:
                    tags.append("rawinv_only_multiplier_negative")
            except np.linalg.LinAlgError:
                tags.append("square_singular")
        fb_warn = any("Numerically solving" in w for w in r.warnings)
        if (path == "nnls-fallback") != fb_warn:
            tags.append("advisory:path_vs_warning_text_differ")      # wording of warnings is not part of the property
        if not np.all(np.isfinite(x)):
            viol.append({"what": "non-finite tension reported", "detail": x[:8].tolist()})
            return
        if not allow_negatives and x.min() < 0:
            viol.append({"what": "negative tension reported although negatives are disallowed", "detail": float(x.min())})
        scale = max(1.0, np.abs(A_ref).max()) * max(1.0, np.abs(b_ref).max())
        tau = (1e-9 if method is None else 1e-5) * scale
        if method == "lsq_linear" and (not consistent or not RN.consistent(M, b_ref[:-1])):
            tags.append("lsq_linear_inconsistent_no_verdict")
            return
        if allow_negatives and x.min() < -tau:
            # allowed: must then be the exact solution of the square system
            z = rec["x"]
            res = np.abs(A_ref @ z - b_ref).max()
            tags.append("negatives_allowed")
            if path != "inv" or res > 1e-8 * scale:
                viol.append({"what": "negative tensions returned (allowed) but they do not solve the square augmented system", "detail": {"path": path, "res": float(res)}})
            return
        lam = RN.best_multiplier(A_ref, b_ref, x)
        z = np.append(np.maximum(x, 0.0) if x.min() > -tau else x, lam)
        cert = RN.kkt(A_ref, b_ref, z, tau)
        raw_lambda = float(rec["x"][-1]) if method != "lsq_linear" else 0.0
        zr = RN.lawson_hanson(A_ref, b_ref)
        cr = RN.kkt(A_ref, b_ref, zr, 1e-8 * scale)
        if not cr["ok"]:
            raise RuntimeError("reference NNLS did not converge: %s" % {k: cr[k] for k in ("neg", "gneg", "comp")})
        R_ref = float(np.linalg.norm(A_ref @ zr - b_ref))
        R_x = float(np.linalg.norm(A_ref @ z - b_ref))
        if method is not None:
            # iterative back-ends stop on a relative change of the cost: certificate = feasible and cost within
            # (1 + 1e-6) of the certified optimum (plus an absolute floor)
            ctol = 1e-4 if method == "lsq" else 1e-6
            cert = dict(cert, ok=(cert["neg"] <= tau and R_x ** 2 <= R_ref ** 2 * (1 + ctol) + (1e-5 * scale) ** 2))
        if not cert["ok"]:
            g = cert["g"]
            stuck = [i for i in range(len(z)) if z[i] <= 1e-4 and g[i] < -tau]
            free_ok = all(abs(g[i]) <= 1e-3 * scale for i in range(len(z)) if z[i] > 1e-3)
            # F20 as recorded costs 2e-4..1e-3 above the optimum; a stuck bound that costs an order of magnitude more is
            # judged like any other non-optimal answer
            if method == "lsq" and cert["neg"] <= tau and stuck and free_ok and R_x ** 2 - R_ref ** 2 <= 1e-2:
                # F20: lmfit maps the bound min=0 through a transform whose derivative vanishes at the bound; a
                # parameter that reaches 0 stays there although the optimum has it positive
                known.append({"id": "F20", "stuck": stuck, "gradient": [float(g[i]) for i in stuck], "cost_excess_rel": (R_x ** 2 - R_ref ** 2) / max(R_ref ** 2, 1e-300)})
            elif path == "inv" and raw_lambda < -tau:
                known.append({"id": "F15", "lambda": raw_lambda, "kkt": {k: cert[k] for k in ("neg", "gneg", "comp")}})
            else:
                viol.append({"what": "reported tensions with the best non-negative multiplier are not a KKT point of the non-negative least-squares problem",
                             "detail": {"path": path, "R_x": R_x, "R_ref": R_ref, "neg": cert["neg"], "gneg": cert["gneg"], "comp": cert["comp"], "tau": tau, "lambda_raw": raw_lambda}})
            return
        if (z[:-1] <= tau).any():
            tags.append("active_bound")
        # ---- unique minimiser: compare with the reference solver
        if RN.unique_minimiser(A_ref, zr, cr["g"], 1e-7 * scale):
            tags.append("unique")
            tolx = 1e-7 * max(1.0, np.abs(zr).max())
            if method is not None:
                # distance implied by the cost tolerance through strong convexity on the support
                S = (zr > 1e-7 * scale) | (np.abs(cr["g"]) <= 1e-7 * scale)
                smin = float(np.linalg.svd(A_ref[:, S], compute_uv=False).min())
                tolx = 2e-3 * max(1.0, np.abs(zr).max()) + (2e-2 if method == "lsq" else 2e-3) * max(R_ref, 1e-5 * scale) / max(smin, 1e-12)
            if np.abs(zr[:-1] - x).max() > tolx:
                viol.append({"what": "reported tensions differ from the unique non-negative least-squares minimiser",
                             "detail": {"max_diff": float(np.abs(zr[:-1] - x).max()), "tol": tolx, "path": path}})
        else:
            tags.append("non_unique")
        if consistent:
            res = np.abs(A_ref @ zr - b_ref).max()
            if res < 1e-9 * scale and abs(x.mean() - 1.0) > max(tau, 1e-9) * 10 + (1e-4 if method else 0):
                viol.append({"what": "mean reported tension is not one on a consistent system", "detail": float(x.mean())})


FAMILIES = None
FURROW = [REPO + "/tests/data/furrow_gauss_velocity/stage%d.dmp" % i for i in range(8)]


def tissue_variants(base, amps, patterns, scales):
    out = [["eq"]]
    for a in amps:
        for p in patterns:
            out.append(["noise", a, p])
    for s in scales:
        out.append(["scale", s])
    return out


class Solver(ProductSystem):
    chunk = 4

    def __init__(self, name, tissues, bound, full_variants):
        """tissues: list of base descriptors: ["whole", base] | ["sub", base, [cells]] ;
        axes: variant, rhs, neg, method"""
        self.name = name
        self._t = tissues
        self.bound = bound
        self.variants = full_variants

    def bases(self):
        return self._t

    def axes(self, base):
        return {"variant": self.variants,
                "rhs": ["static", "velocity", "velocity_drift"],     # drift: the whole tissue also moves along (1, 1) at a speed of several times the number of interfaces (the multiplier, which absorbs a common drift, is then much larger than the tensions)
                "neg": [False, True],
                "method": [None, "lsq", "lsq_linear", "fix_stress"],
                "map": [["m", 0.05, 0.02], ["id"]],
                "order": self._orders(base),
                "limit": ["inf", "excluding"],
                "k": [3, ["mod3", 0, 3, 1], ["mod3", 2, 0, 0]],       # interior points per interface: two-point interfaces among sampled ones
                "kw": [None, {"use_std": False}, {"verbose": False, "use_std": False}, {"use_std": True}, {"initial_condition": ["ones"]}, {"initial_condition": ["zero_at", 0]},
                       {"initial_condition": ["previous", 0.2, 1]}, {"initial_condition": ["previous", 0.1, 0]}] + (KW_MORE if self.bound > 3 else [])}      # options spelled out with their default values

    def _orders(self, base):
        """cell insertion orders (an environment choice): they decide which interface is the first / last unknown"""
        n = len(self.abstract(base)["C"])
        return [["id"], ["rev"]] + [["rot", r] for r in range(1, min(n, 12))]

    def abstract(self, base):
        at = bases.get(base[1])
        if base[0] == "sub":
            at = T.sub_tissue(at, base[2])
        return at

    def eval_config(self, base, cfg):
        at = self.abstract(base)
        var = cfg["variant"]
        ext = SC.extent_of(bases.get(base[1]))
        post = None
        scale = 1.0
        if var[0] == "noise":
            post = SC.noise_post(var[1] * 0.6, var[2])
        elif var[0] == "bump":
            from fsmc.ref import tangent as RT
            rows = RT.reference_system(at)["rows"]
            post = SC.bump_post(at, rows[var[1] % len(rows)], var[2] * cmath.exp(1j * (var[3] * math.pi / 4 + 0.1)))
        elif var[0] == "scale":
            scale = var[1]
        cm = SC.make_cmap(cfg["map"], 0.2, (0, 0), scale, ext)
        viol, known, tags = [], [], []
        cids = sorted(at["C"], key=int)
        od = cfg["order"]
        order = cids if od[0] == "id" else (cids[::-1] if od[0] == "rev" else cids[od[1]:] + cids[:od[1]])
        lab = {"order": order}
        if cfg["kw"] and cfg["kw"].get("initial_condition", [None])[0] == "previous":
            # the start vector is the answer of an earlier inference of the same tissue in another deformation (a plain list that
            # usually contains exact zeros where that answer sat on the bound), as a user tracking a movie would pass it
            _, amp_, pat_ = cfg["kw"]["initial_condition"]
            prev = SC.solve_static(at, k=cfg["k"], cmap=cm, method=None, post=SC.noise_post(amp_, pat_), allow_negatives=False, lab=lab)
            cfg = dict(cfg, kw={"initial_condition": [float(x) for x in prev.forces]} if prev.exc is None else None)
            tags.append("initial_condition:previous")
            if prev.exc is None and any(x == 0 for x in prev.forces):
                tags.append("initial_condition:previous_with_exact_zero")
        consistent = var[0] not in ("noise", "bump") and cfg["rhs"] == "static" and (cfg["k"] == 3 or cfg["map"][0] == "id")      # a two-point 'arc' is a chord: not in force balance
        if cfg["k"] != 3:
            tags.append("mixed_point_counts")
        if var[0] in ("noise", "bump"):
            tags.append("noisy")
        if cfg["rhs"] in ("velocity", "velocity_drift"):
            tags.append("rhs:velocity")
            post1 = SC.noise_post(0.012 * scale, 3) if post is None else (lambda j, i, p0=post, p1=SC.noise_post(0.012 * scale, 3): p1(*p0(j, i)))
            dt = 0.5
            if cfg["rhs"] == "velocity_drift":
                # a common displacement of 0.01 (well inside the tracking bounds) in a time step short enough for a drift speed of
                # 4 x (number of interfaces) along (1, 1)
                tags.append("rhs:velocity_drift")
                nint = max(1, len(T.internal_interfaces(at)))
                dd = 0.01 * scale
                dt = dd / (4.0 * nint)
                # the non-uniform part of the motion keeps the speed it has in the plain 'velocity' case (displacement scaled with dt)
                nz = SC.noise_post(0.012 * scale * dt / 0.5, 3)
                post1 = nz if post is None else (lambda j, i, p0=post, p1=nz: p1(*p0(j, i)))
                post1 = (lambda j, i, p0=post1, dz=complex(dd, dd): (lambda jj, ii: ({k_: z + dz for k_, z in jj.items()}, [[z + dz for z in pts] for pts in ii]))(*p0(j, i)))
            s, infos, ex = SC.build_series([{"at": at, "k": cfg["k"], "cmap": cm, "post": post, "time": 0.0, "lab": lab},
                                            {"at": at, "k": cfg["k"], "cmap": cm, "post": post1, "time": dt, "lab": lab}])
            if ex is not None:
                return {"viol": [{"what": "ForSys construction raised", "detail": fsutil.exc_str(ex)}], "tags": tags, "cls": "exc"}
            r = SC.solve_frame(s, 0, at, infos[0], method=cfg["method"], allow_negatives=cfg["neg"], solve_kwargs=dict({"b_matrix": "velocity"}, **(cfg["kw"] or {})))
        else:
            lim = np.inf
            if cfg["limit"] == "excluding":
                from checks import c10
                lim = c10.angle_limit_for(at, cm) if len(at["C"]) >= 3 else np.inf
            r = SC.solve_static(at, k=cfg["k"], cmap=cm, method=cfg["method"], allow_negatives=cfg["neg"], post=post, lab=lab, angle_limit=lim, solve_kwargs=cfg["kw"])
        if cfg["kw"] and "initial_condition" not in cfg["kw"]:
            tags.append("defaults_spelled_out")
        if cfg["kw"] and "initial_condition" in cfg["kw"] and isinstance(cfg["kw"]["initial_condition"][0], str):
            tags.append("initial_condition:" + cfg["kw"]["initial_condition"][0])
        if cfg["method"] == "lsq_linear" and not consistent:
            return {"viol": [], "tags": tags + ["lsq_linear_inconsistent_no_verdict"], "cls": "lsq_linear-inconsistent", "outdom": True}
        if cfg["kw"] and cfg["kw"].get("use_std"):
            # 'use_std' makes the Levenberg-Marquardt back-end minimise residual x (1 + std(x) / 2): another objective, with the same
            # minimisers only where the equations can be met exactly; every other back-end ignores the option
            if cfg["method"] == "lsq" and not consistent:
                return {"viol": [], "tags": tags + ["use_std_inconsistent_no_verdict"], "cls": "use_std-inconsistent", "outdom": True}
            tags.append("use_std" if cfg["method"] == "lsq" else "use_std_ignored_by_backend")
        if r.exc is not None:
            if cfg["method"] == "fix_stress":
                known.append({"id": "F9", "exc": fsutil.exc_str(r.exc)})
                return {"viol": viol, "known": known, "tags": tags + ["fix_stress_raises"], "cls": "fix_stress-exc", "nontrivial": False}
            if r.fm is not None and (r.fm.matrix.shape[0] == 0 or r.fm.matrix.shape[1] == 0):
                return {"viol": [], "tags": tags + ["empty_system_no_verdict"], "cls": "empty", "outdom": True}
            return {"viol": [{"what": "solve raised", "detail": fsutil.exc_str(r.exc)}], "tags": tags, "cls": "exc"}
        if r.M.shape[0] == 0 or r.M.shape[1] == 0:
            return {"viol": [], "tags": tags + ["empty_system_no_verdict"], "cls": "empty", "outdom": True}
        if cfg["method"] == "fix_stress":
            # should the method ever be repaired: it fixes one tension instead of the mean, so only the clauses that do not
            # mention the mean-one row are judged (finite, non-negative when negatives are disallowed)
            x_ = np.array(r.forces, float)
            if not np.all(np.isfinite(x_)):
                viol.append({"what": "non-finite tension reported by 'fix_stress'"})
            elif not cfg["neg"] and x_.min() < 0:
                viol.append({"what": "negative tension reported by 'fix_stress' although negatives are disallowed", "detail": float(x_.min())})
            return {"viol": viol, "known": known, "tags": tags + ["fix_stress_returned"], "cls": "fix_stress-returned"}
        judge(r, cfg["method"], cfg["neg"], consistent, viol, known, tags)
        nact = sum(1 for v in r.forces if v <= 1e-9)
        cls = "%s/%s/%s/%s/%s/%d" % (r.M.shape, r.record["path"] if r.record else "-", cfg["rhs"], cfg["method"], var[0], nact)
        return {"viol": viol, "known": known, "tags": sorted(set(tags)), "cls": cls, "nontrivial": r.M.shape[0] > 0 and r.M.shape[1] > 0}


def eval_fixture(d):
    """shipped Surface Evolver dumps (real fixtures): static and velocity right-hand sides"""
    import forsys as fs
    import forsys.surface_evolver as fse
    import forsys.frames as ff
    files, t, rhs, neg, method = d["files"], d["t"], d["rhs"], d["neg"], d["method"]
    viol, known, tags = [], [], ["fixture"]
    with fsutil.quiet():
        frames = {}
        for i, f in enumerate(files):
            se = fse.SurfaceEvolver(f)
            frames[i] = ff.Frame(i, se.vertices, se.edges, se.cells, time=float(i))
        s = fs.ForSys(frames, cm=False)
    r = SC.Solved()
    r.exc = None
    kw = {"allow_negatives": neg}
    if method:
        kw["method"] = method
    if rhs == "velocity":
        kw["b_matrix"] = "velocity"
        tags.append("rhs:velocity")
    try:
        with fsutil.quiet() as w:
            s.build_force_matrix(when=t)
            r.fm = s.force_matrices[t]
            r.M = np.array(r.fm.matrix, float)
            s.solve_stress(when=t, **kw)
        r.warnings = [str(x.message) for x in w]
    except Exception as ex:
        if method == "fix_stress":
            return {"viol": [], "known": [{"id": "F9", "exc": fsutil.exc_str(ex)}], "tags": tags + ["fix_stress_raises"], "cls": "fixture-fix_stress", "nontrivial": False}
        return {"viol": [{"what": "solve raised on a shipped fixture", "detail": fsutil.exc_str(ex)}], "tags": tags, "cls": "exc"}
    r.forces = [float(s.forces[t][i]) for i in range(len(s.forces[t]))]
    r.record = getattr(r.fm, "_verif_record", None)
    consistent = False
    judge(r, method, neg, consistent, viol, known, tags)
    return {"viol": viol, "known": known, "tags": sorted(set(tags)), "cls": "fixture/%s/%s/%s/%s" % (files[t].split("/")[-1], rhs, neg, method),
            "nontrivial": True}


def deletions(base, nmax):
    at = bases.get(base)
    cells = sorted(at["C"], key=int)
    adj = T.cell_adjacency(at)
    out = []
    for n in range(1, nmax + 1):
        for rem in itertools.combinations(cells, n):
            keep = [c for c in cells if c not in rem]
            S = set(keep)
            st = [keep[0]]
            seen = {keep[0]}
            while st:
                x = st.pop()
                for y in adj[x] & S:
                    if y not in seen:
                        seen.add(y)
                        st.append(y)
            if seen == S:
                out.append(["sub", base, keep])
    return out


def build(tier, seed):
    if tier == "quick":
        var = tissue_variants(None, [0.02, 0.08, 0.2], [0, 1, 2, 3], [1e-3, 1e3])
        subs = [["sub", "v5x4", S] for S in T.connected_subsets(bases.get("v5x4"), min_size=3)]
        bumps = [["eq"]] + [["bump", j, a, d] for j in range(10) for a in (0.2, 0.35, 0.5) for d in range(8)]
        return [Solver("whole", [["whole", "v5x5"], ["whole", "v6x5"], ["whole", "v4x4p%d" % (seed + 1)]], 2, var),
                Solver("whole-d3", [["whole", "v5x5"]], 3, [["eq"], ["noise", 0.08, 1], ["noise", 0.2, 2], ["noise", 0.2, 0], ["scale", 1e-3]]),
                Solver("bumps", [["whole", "v5x5"]], 2, bumps),
                ListSystem("shipped-fixtures", [{"files": FURROW[:2], "t": 0, "rhs": rh, "neg": False, "method": m}
                                                for rh in ("static", "velocity") for m in (None, "lsq_linear")] +
                           [{"files": [REPO + "/tests/data/initial_furrow.dmp"], "t": 0, "rhs": "static", "neg": True, "method": None}], eval_fixture),
                Solver("subtissues", subs, 1, [["eq"], ["noise", 0.08, 1]]),
                Solver("deletions", deletions("v5x5", 2), 1, [["eq"], ["noise", 0.08, 2], ["noise", 0.2, 0]])]
    var = tissue_variants(None, [0.02, 0.08, 0.2], [0, 1, 2, 3], [1e-3, 1e3])
    subs = [["sub", "v5x5", S] for S in T.connected_subsets(bases.get("v5x5"), min_size=3)]
    bumps = [["eq"]] + [["bump", j, a, d] for j in range(10) for a in (0.2, 0.35, 0.5) for d in range(8)]
    return [Solver("whole", [["whole", "v5x5"], ["whole", "v6x5"], ["whole", "v6x6"], ["whole", "v7x6"], ["whole", "v5x4p%d" % (seed + 1)]], 4, var),
            Solver("bumps", [["whole", "v5x5"]], 3, bumps),
            ListSystem("shipped-fixtures", [{"files": FURROW, "t": t, "rhs": rh, "neg": ng, "method": m}
                                            for t in (0, 3, 7) for rh in ("static", "velocity") for ng in (False, True) for m in (None, "lsq", "lsq_linear", "fix_stress")] +
                       [{"files": [f], "t": 0, "rhs": "static", "neg": False, "method": m} for f in (REPO + "/tests/data/initial_furrow.dmp", REPO + "/tests/data/last_furrow.dmp", REPO + "/tests/data/12_12/step_20.dmp") for m in (None, "lsq")], eval_fixture),
            Solver("subtissues", subs, 1, [["eq"], ["noise", 0.08, 1], ["noise", 0.2, 2]]),
            Solver("deletions", deletions("v6x5", 3), 2, [["eq"], ["noise", 0.08, 2], ["noise", 0.2, 0]])]
