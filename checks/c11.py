"""C11 — mesh resampling keeps junctions, topology and interface shape.

States = meshes reached from a generated tissue by sequences of generate_mesh(ne, replace_short_edges);
every transition is judged by the relational specification of the statement between a snapshot taken before the
call and the returned mesh; a repeated application (next transition with the same arguments) must change nothing.
Alphabet: every interface length 2..42 (k = 0..40 interior points) x ne = 1..12 x both settings of
replace_short_edges; mixed lengths; every connected sub-tissue of a base; all four coordinate quadrants.
"""
import numpy as np

from fsmc import bases, tissue as T, fsutil, solvecase as SC
from fsmc.ref import decomp, mesh as RM

PID = "C11"
RULE = ("states = (tissue, points per interface, sequence of (ne, replace_short_edges) up to depth 2); transitions = one generate_mesh call; "
        "non-trivial = some interface actually lost points or was contracted; classes = (tissue size, k, ne sequence)")
BOUND = {"quick": "k = 0..40 x ne = 1..12 x 2 settings on a 6-cell base (first call), every second call with the same arguments plus two others; all sub-tissues of a 7-cell base x k in {0,1,5} x ne in {1,2,3,6}; every first call with ne=4 or replace_short_edges=True repeated with those arguments omitted",
         "thorough": "same on an 11-cell base incl. mixed lengths, all sub-tissues of an 11-cell base, depth 3"}
ASSUMPTIONS = ["contraction is only defined when the two-point border interfaces are pairwise vertex-disjoint; chained ones (the library refuses them) give no verdict",
               "a contracted pair of vertices is identified with its new midpoint vertex when cycles and interfaces are compared"]
REQUIRED_TAGS = {"all": ["lost_points", "contracted", "unchanged_short", "idempotence_checked", "negative_coordinates", "ne1", "border_junction_3cells", "defaults_omitted"]}


def snapshot(v, e, c):
    return {"pos": {vid: (vv.x, vv.y) for vid, vv in v.items()},
            "cyc": {cid: [w.id for w in cc.vertices] for cid, cc in c.items()},
            "mesh": fsutil.mesh_graph(e)}


def cyclic_subsequence(new, old):
    """is `new` (list) a cyclic subsequence of `old` (list, no repeats)?"""
    if not new:
        return True
    pos = {x: i for i, x in enumerate(old)}
    if any(x not in pos for x in new):
        return False
    idx = [pos[x] for x in new]
    n = len(old)
    # rotate so that it starts at its minimum, then must be strictly increasing
    wraps = sum(1 for a, b in zip(idx, idx[1:] + idx[:1]) if b <= a)
    return wraps <= 1 and len(set(idx)) == len(idx)


def relation(before, after, ne, rse, tags):
    """the statement's relation between the mesh before and after one generate_mesh(ne, replace_short_edges=rse)"""
    V = []
    # vertex ids can be re-used by the library for the midpoint vertices it creates: rename every vertex of `after` whose
    # id is new, or whose position differs from the old holder of that id, to a fresh symbolic id
    newv = {x for x in after["pos"] if x not in before["pos"] or before["pos"][x] != after["pos"][x]}
    ren = lambda x: ("new", x) if x in newv else x
    after = {"pos": {ren(x): p for x, p in after["pos"].items()},
             "cyc": {c: [ren(x) for x in cyc] for c, cyc in after["cyc"].items()},
             "mesh": [(ren(a), ren(b)) for a, b in after["mesh"]]}
    vc0 = decomp.cells_of_vertex(before["cyc"])
    paths0, junc0 = decomp.maximal_paths(before["mesh"])
    paths1, junc1 = decomp.maximal_paths([(str(a), str(b)) for a, b in after["mesh"]])
    back = {str(x): x for x in after["pos"]}
    paths1 = {tuple(back[x] for x in p) for p in paths1}
    # which two-point border interfaces are to be contracted
    contract = []
    # at ne = 1 EVERY interface becomes a two-point interface, so "two-point border interfaces are contracted" and "a second
    # application changes nothing" cannot both hold; the library does not contract at ne = 1 and stays idempotent. The
    # contraction clause is therefore not judged at ne = 1 (both outcomes accepted), idempotence is.
    if rse and ne == 1:
        cand1 = [p for p in sorted(paths0) if len(p) == 2 and len(vc0.get(p[0], ())) < 3 and len(vc0.get(p[1], ())) < 3 and len(decomp.cells_beside(p, before["cyc"])) == 1]
        if cand1 and any(isinstance(x, tuple) for x in after["pos"]):
            contract = cand1
    elif rse:
        for p in sorted(paths0):
            if len(p) == 2 and len(vc0.get(p[0], ())) < 3 and len(vc0.get(p[1], ())) < 3 and len(decomp.cells_beside(p, before["cyc"])) == 1:
                contract.append(p)
    merged = {}      # old vertex id -> new vertex id
    if contract:
        tags.append("contracted")
        used = {}
        for p in contract:
            for x in p:
                if x in used:
                    return None      # chained contractions: outside the statement
                used[x] = p
        # identify the new vertices: those of `after` that are not in `before`
        # ids may be re-used: a new vertex is one whose id is new or whose position differs from the old holder of that id
        new_ids = [x for x in after["pos"] if isinstance(x, tuple)]
        for p in contract:
            mid = ((before["pos"][p[0]][0] + before["pos"][p[1]][0]) / 2, (before["pos"][p[0]][1] + before["pos"][p[1]][1]) / 2)
            cand = [x for x in new_ids if abs(after["pos"][x][0] - mid[0]) <= 1e-9 * (1 + abs(mid[0])) and abs(after["pos"][x][1] - mid[1]) <= 1e-9 * (1 + abs(mid[1]))]
            if len(cand) != 1:
                V.append({"what": "a two-point border interface was not contracted to one vertex at its midpoint",
                          "detail": {"interface": list(p), "midpoint": mid, "new_vertices": [[x, after["pos"][x]] for x in new_ids][:4]}})
                return V
            merged[p[0]] = cand[0]
            merged[p[1]] = cand[0]
            for x in p:
                if x in after["pos"]:
                    V.append({"what": "a contracted vertex is still in the mesh", "detail": list(p)})
    img = lambda x: merged.get(x, x)
    # 1. junctions shared by >= 3 cells keep id and exact position
    for j in junc0:
        if len(vc0.get(j, ())) >= 3:
            if j not in after["pos"] or after["pos"][j] != before["pos"][j]:
                V.append({"what": "a junction shared by three or more cells did not keep its id and exact position", "detail": {"junction": j, "before": before["pos"][j], "after": after["pos"].get(j)}})
                break
    # 2. cells with a junction survive; adjacencies survive
    for cid, cyc in before["cyc"].items():
        if any(x in junc0 for x in cyc) and cid not in after["cyc"]:
            V.append({"what": "a cell that has a junction disappeared", "detail": {"cell": cid}})
    def adjacency(cyc_map):
        seg = {}
        for cid, cyc in cyc_map.items():
            n = len(cyc)
            for i in range(n):
                a, b = cyc[i], cyc[(i + 1) % n]
                if a != b:
                    seg.setdefault(frozenset((a, b)), set()).add(cid)
        adj = set()
        for cs in seg.values():
            for a in cs:
                for b in cs:
                    if a < b:
                        adj.add((a, b))
        return adj
    lost = adjacency(before["cyc"]) - adjacency(after["cyc"])
    if lost:
        V.append({"what": "a cell-to-cell adjacency was lost", "detail": sorted(lost)[:5]})
    # 3./4. every interface -> ordered subsequence with both ends and <= ne+1 points
    after_by_ends = {}
    for p in paths1:
        after_by_ends.setdefault(frozenset((p[0], p[-1])), []).append(p)
    lost_pts = False
    for p in sorted(paths0):
        if p in contract:
            continue
        a, b = img(p[0]), img(p[-1])
        cands = after_by_ends.get(frozenset((a, b)), [])
        pim = [img(x) for x in p]
        match = None
        for q in cands:
            for qq in (list(q), list(q)[::-1]):
                it = iter(pim)
                if qq[0] == pim[0] and qq[-1] == pim[-1] and all(any(x == y for y in it) for x in qq):
                    # two interfaces can share both ends (a cell attached through one interface): take the longest image
                    if match is None or len(qq) > len(match):
                        match = qq
        if match is None:
            # an end that is no longer a junction after the call (degree dropped through contraction) merges interfaces: accept if
            # all surviving points of p appear consecutively in some new interface
            surv = [x for x in pim if x in after["pos"]]
            ok = False
            for q in paths1:
                for qq in (list(q), list(q)[::-1]):
                    s = "," + ",".join(map(str, qq)) + ","
                    if len(surv) >= 2 and all(x in qq for x in (surv[0], surv[-1])):
                        i0, i1 = qq.index(surv[0]), qq.index(surv[-1])
                        if i0 < i1 and all(x in pim for x in qq[i0:i1 + 1]):
                            match = qq[i0:i1 + 1]
                            ok = True
                            break
                if ok:
                    break
            if not ok:
                V.append({"what": "an interface was not replaced by an ordered subsequence of its points that keeps both ends", "detail": {"interface": list(p)[:12], "ends_after": [a, b]}})
                continue
        if len(match) > ne + 1:
            V.append({"what": "an interface has more than ne+1 points after resampling", "detail": {"interface": list(p)[:12], "after": match[:14], "ne": ne}})
        if len(p) <= ne + 1:
            tags.append("unchanged_short")
            if match != pim:
                V.append({"what": "an interface that already had at most ne+1 points was changed", "detail": {"before": list(p), "after": match, "ne": ne}})
        elif len(match) < len(p):
            lost_pts = True
        for x in match:
            if x in before["pos"] and after["pos"][x] != before["pos"][x]:
                V.append({"what": "a kept point moved", "detail": x})
                break
    if lost_pts:
        tags.append("lost_points")
    # 5. cycles
    for cid, cyc in after["cyc"].items():
        old = before["cyc"].get(cid)
        if old is None:
            V.append({"what": "a new cell appeared", "detail": cid})
            continue
        oldi = []
        for x in old:
            y = img(x)
            if not oldi or oldi[-1] != y:
                oldi.append(y)
        if len(oldi) > 1 and oldi[0] == oldi[-1]:
            oldi.pop()
        if not cyclic_subsequence(cyc, oldi):
            V.append({"what": "a cell's vertex cycle is not a cyclic subsequence of its original cycle", "detail": {"cell": cid, "before": old[:20], "after": cyc[:20]}})
    return V


class Resampling:
    chunk = 8

    def __init__(self, name, tissues, ks, nes, depth, second="same+2"):
        """tissues: list of [base, cells|None, shift]"""
        self.name = name
        self.tissues, self.ks, self.nes = tissues, ks, nes
        self.bound = depth
        self.second = second

    def initial(self):
        return [{"t": ti, "k": k, "ops": []} for ti in range(len(self.tissues)) for k in self.ks]

    def actions(self, d):
        if not d["ops"]:
            return [[ne, rse] for ne in self.nes for rse in (True, False)]
        last = d["ops"][-1]
        acts = [list(last)]
        if self.second != "same":
            acts += [[max(1, last[0] - 1), last[1]], [last[0] + 3, not last[1]]]
        return acts

    def step(self, d, a):
        return {"t": d["t"], "k": d["k"], "ops": d["ops"] + [list(a)]}

    def evaluate(self, d):
        import forsys.virtual_edges as ve
        from forsys.exceptions import SegmentationArtifactException
        base, cells, shift = self.tissues[d["t"]]
        at = bases.get(base)
        if cells:
            at = T.sub_tissue(at, cells)
        cm = T.CMap([T.mob(0.03 + 0.01j), T.aff(1.0, complex(shift[0], shift[1]))])
        if base == "lens" and d["k"] == 0:
            return {"viol": [], "tags": ["lens_k0_outside"], "cls": "lens-k0", "outdom": True}
        with fsutil.quiet():
            v, e, c, info = T.realise(at, k=d["k"], cmap=cm)
        tags, viol, known = [], [], []
        if shift[0] < 0 or shift[1] < 0:
            tags.append("negative_coordinates")
        if any(len(x.ownCells) >= 3 and len(x.ownEdges) >= 4 and any(len(e[k_].v1.ownCells) < 2 or len(e[k_].v2.ownCells) < 2 for k_ in x.ownEdges) for x in v.values()):
            tags.append("border_junction_3cells")
        before = None
        for n, (ne, rse) in enumerate(d["ops"]):
            before = snapshot(v, e, c)
            try:
                with fsutil.quiet():
                    v, e, c, _ = ve.generate_mesh(v, e, c, ne=ne, replace_short_edges=rse)
            except SegmentationArtifactException:
                return {"viol": [], "tags": tags + ["refused_chained_contraction"], "cls": "refused", "outdom": True}
            except Exception as ex:
                if relation(before, before, ne, rse, []) is None:
                    return {"viol": [], "tags": tags + ["refused_chained_contraction"], "cls": "refused", "outdom": True}
                return {"viol": [{"what": "generate_mesh raised", "detail": {"exc": fsutil.exc_str(ex), "ops": d["ops"][:n + 1]}}], "tags": tags, "cls": "exc"}
        if before is not None and (any(len(cy) < 3 for cy in before["cyc"].values()) or len(set(map(frozenset, before["mesh"]))) != len(before["mesh"])):
            # a previous call with very small ne collapsed a cell to fewer than three vertices / produced parallel mesh
            # edges: no longer a polygonal mesh, nothing is promised from here
            return {"viol": [], "tags": tags + ["degenerate_start_no_verdict"], "cls": "degenerate", "outdom": True}
        if before is not None:
            ne, rse = d["ops"][-1]
            after = snapshot(v, e, c)
            if ne == 1:
                tags.append("ne1")
            rel = relation(before, after, ne, rse, tags)
            if rel is None:
                return {"viol": [], "tags": tags + ["chained_contraction_no_verdict"], "cls": "chained", "outdom": True}
            viol += rel
            if len(d["ops"]) >= 2 and d["ops"][-1] == d["ops"][-2]:
                tags.append("idempotence_checked")
                if before["pos"] != after["pos"] or before["cyc"] != after["cyc"] or sorted(map(sorted, before["mesh"])) != sorted(map(sorted, after["mesh"])):
                    viol.append({"what": "resampling an already resampled mesh with the same arguments changed it",
                                 "detail": {"vertices_before": len(before["pos"]), "after": len(after["pos"]), "ops": d["ops"]}})
            prob = RM.check_mesh(v, e, c)
            if prob:
                viol.append({"what": "mesh returned by generate_mesh is inconsistent", "detail": prob[:3]})
            if len(d["ops"]) == 1 and (ne == 4 or rse):
                # the same call with the arguments that equal their defaults (ne=4, replace_short_edges=True) left out
                kw = {}
                if ne != 4:
                    kw["ne"] = ne
                if not rse:
                    kw["replace_short_edges"] = rse
                with fsutil.quiet():
                    v2, e2, c2, _ = T.realise(at, k=d["k"], cmap=cm)
                    res, ex = fsutil.call(ve.generate_mesh, v2, e2, c2, **kw)
                tags.append("defaults_omitted")
                if ex is not None:
                    viol.append({"what": "generate_mesh raises when arguments equal to their defaults are omitted", "detail": {"omitted_call": kw, "exc": fsutil.exc_str(ex)}})
                else:
                    other = snapshot(res[0], res[1], res[2])
                    if other["pos"] != after["pos"] or other["cyc"] != after["cyc"] or sorted(map(sorted, other["mesh"])) != sorted(map(sorted, after["mesh"])):
                        viol.append({"what": "generate_mesh gives a different mesh when arguments equal to their defaults (ne=4, replace_short_edges=True) are omitted",
                                     "detail": {"spelled": {"ne": ne, "replace_short_edges": rse}, "omitted_call": kw}})
                res = v2 = e2 = c2 = None
        key = fsutil.state_hash([d["t"], snapshot(v, e, c)["cyc"], sorted(snapshot(v, e, c)["pos"].items())])
        cls = "%d/%s/%s" % (d["t"], d["k"], d["ops"])
        return {"key": key, "viol": viol, "known": known, "tags": sorted(set(tags)), "cls": cls, "nontrivial": "lost_points" in tags or "contracted" in tags}

    def check_edge(self, d, a, d2, r, r2):
        return [], []


def build(tier, seed):
    b6 = None
    from checks import c07
    if tier == "quick":
        b6 = c07.first_connected("v5x5", 6)
        subs = [["v5x4", S, [0, 0]] for S in T.connected_subsets(bases.get("v5x4"))]
        sq = [["square3x3", S, [0, 0]] for S in T.connected_subsets(bases.get("square3x3"), min_size=2, max_size=5)]
        return [Resampling("fourfold-border-junctions", sq + [["lens", None, [0, 0]]], [0, 1, 3], [2, 3, 6], 1),
                Resampling("wheels-and-fans", [["wheel7", None, [0, 0]], ["wheel5", None, [-3, 2]], ["fan5", None, [0, 0]]], [0, 1, 2, 4], [1, 2, 3], 2, "same"),
                Resampling("lengths", [["v5x5", b6, [0, 0]], ["v5x5", b6, [-9, -7]]], list(range(0, 41)), list(range(1, 13)), 2, "same"),
                Resampling("mixed", [["v5x5", b6, [3, -8]]], [["mod3", 0, 4, 11], ["mod3", 7, 1, 0], ["mod3", 2, 17, 5]], [1, 2, 3, 4, 6, 9], 2),
                Resampling("subtissues", subs, [0, 1, 5], [1, 2, 3, 6], 1),
                Resampling("seeded", [["v4x4p%d" % (seed + 1), None, [-4, 2]]], [0, 2, 7], [1, 2, 5], 2)]
    subs = [["v5x5", S, [-6, -6]] for S in T.connected_subsets(bases.get("v5x5"))]
    sq = [["square3x3", S, [-2, -2]] for S in T.connected_subsets(bases.get("square3x3"), min_size=2)]
    return [Resampling("fourfold-border-junctions", sq + [["lens", None, [0, 0]], ["hex3x3", None, [0, 0]]], [0, 1, 3], [2, 3, 6], 2, "same"),
            Resampling("wheels-and-fans", [["wheel7", None, [0, 0]], ["wheel5", None, [-3, 2]], ["wheel4", None, [0, 0]], ["fan5", None, [0, 0]], ["fan6", None, [2, 2]]], [0, 1, 2, 4, 9], [1, 2, 3, 5], 3),
            Resampling("lengths", [["v5x5", None, [0, 0]], ["v5x5", None, [-9, -7]], ["v6x5", None, [-3, 4]]], list(range(0, 41)), list(range(1, 13)), 2, "same"),
            Resampling("mixed", [["v5x5", None, [3, -8]], ["v6x5", None, [0, 0]]], [["mod3", 0, 4, 11], ["mod3", 7, 1, 0], ["mod3", 2, 17, 5], ["mod3", 40, 0, 3]], list(range(1, 13)), 3),
            Resampling("subtissues", subs, [0, 1, 5], [1, 2, 3, 6], 2, "same"),
            Resampling("seeded", [["v5x4p%d" % (seed + 1), None, [-4, 2]]], [0, 2, 7, 23], [1, 2, 5, 8], 3)]
