#!/bin/bash
# usage: tools/seeds.sh "0 1 2" C01 C02 ...   — runs quick tier for the seeds; never writes evidence
seeds=$1; shift
for id in "$@"; do for s in $seeds; do
  out=$(VERIF_SEED=$s VERIF_KEEP_EVIDENCE=1 ./check $id quick 2>&1); rc=$?
  echo "$id seed=$s rc=$rc $(echo "$out" | grep -c VIOLATION) viol; $(echo "$out" | grep -o 'wall=[0-9.]*s')"
  [ $rc -ne 0 ] && echo "$out" | grep -E "what:|HARNESS|Error" | sort | uniq -c | head -5
done; done
