"""usage: tools/linecov.py <dir written with VERIF_LINECOV=<dir>> [file.py ...]
forsys lines (grouped by function) that no check executed. Development aid, not part of any verdict."""
import glob, os, sys
repo = os.environ.get("FORSYS_REPO", "/repo")
seen = set()
for f in glob.glob(os.path.join(sys.argv[1], "*.txt")):
    for l in open(f):
        fn, line = l.rstrip("\n").rsplit(":", 1)
        seen.add((fn, int(line)))
only = set(sys.argv[2:])


def codes(co):
    yield co
    for c in co.co_consts:
        if hasattr(c, "co_code"):
            yield from codes(c)


for path in sorted(glob.glob(os.path.join(repo, "forsys", "*.py"))):
    fn = os.path.basename(path)
    if only and fn not in only:
        continue
    src = open(path).read()
    lines = src.splitlines()
    top = compile(src, path, "exec")
    tot = miss = 0
    out = []
    for co in codes(top):
        if co is top:
            continue
        ls = sorted({l for _, _, l in co.co_lines() if l is not None and l != co.co_firstlineno})
        ms = [l for l in ls if (fn, l) not in seen]
        tot += len(ls); miss += len(ms)
        if ms and len(ms) < len(ls):
            out.append("  %s (line %d): %d of %d lines never executed" % (co.co_qualname, co.co_firstlineno, len(ms), len(ls)))
            for l in ms:
                out.append("      %4d  %s" % (l, lines[l - 1].strip()[:110]))
        elif ms:
            out.append("  %s (line %d): NEVER CALLED (%d lines)" % (co.co_qualname, co.co_firstlineno, len(ls)))
    print("%s: %d of %d executable lines never executed" % (fn, miss, tot))
    print("\n".join(out))
