#!/usr/bin/env python3
"""Regenerates MANIFEST.json from the check modules (checks/cNN.py: PID, BOUND, ASSUMPTIONS, LEVEL_TEXT, TECHNIQUE)
and tools/not_applicable.json. Run from /verif with /venv/bin/python."""
import importlib
import json
import os
import sys

ROOT = os.path.dirname(os.path.dirname(os.path.abspath(__file__)))
sys.path[:0] = ["/repo", ROOT]
props = [json.loads(l) for l in open(os.path.join(ROOT, "properties.jsonl"))]
checks = []
na = []
na_reasons = json.load(open(os.path.join(ROOT, "tools", "not_applicable.json")))
for p in props:
    pid = p["id"]
    path = os.path.join(ROOT, "checks", pid.lower() + ".py")
    if not os.path.exists(path) or pid in na_reasons:
        na.append({"property_id": pid, "reason": na_reasons.get(pid, "check not built yet in this session (planned in DESIGN.md section 4); nothing is claimed for it")})
        continue
    mod = importlib.import_module("checks." + pid.lower())
    b = getattr(mod, "BOUND", {})
    checks.append({
        "property_id": pid,
        "quick_cmd": "./check %s quick" % pid,
        "thorough_cmd": "./check %s thorough" % pid,
        "evidence_file": "evidence/%s.json" % pid,
        "replay_cmd_template": "./check %s --replay {path}" % pid,
        "engine": "fsmc",
        "level_claimed": {
            "category": "model_checking",
            "text": getattr(mod, "LEVEL_TEXT", "Bounded-exhaustive explicit-state exploration of the real implementation: every state/configuration within the stated bound is executed on fresh forsys objects and judged by an independent reference model. ") + " quick: " + b.get("quick", "") + " | thorough: " + b.get("thorough", ""),
            "design_ref": "DESIGN.md section 4, %s" % pid,
        },
        "level_note": "Trusted: the reference models under fsmc/ref and the abstract-tissue generator fsmc/tissue.py; numpy/scipy. " + " ".join(getattr(mod, "ASSUMPTIONS", [])),
        "technique": getattr(mod, "TECHNIQUE", "explicit-state bounded-exhaustive exploration of the implementation (BFS over operation histories / deviation-bounded configuration products) with a reference-model oracle"),
    })
m = {
    "version": 1,
    "setup_cmd": "/venv/bin/python -m compileall -q fsmc checks >/dev/null 2>&1; true",
    "hooks": {
        "guard": "FORSYS_VERIF",
        "enable": "environment variable FORSYS_VERIF=1 (exported by ./check); forsys is pure Python and imported from /repo's working tree, nothing to build",
        "baseline_off_cmd": "cd /repo && env -u FORSYS_VERIF /venv/bin/python -m pytest -ra -q -p no:cacheprovider --timeout=900 --continue-on-collection-errors",
        "source_commits": json.load(open(os.path.join(ROOT, "tools", "hook_commits.json"))),
        "add_only": True,
    },
    "engines": [{"name": "fsmc", "path": "fsmc/", "serves_properties": [c["property_id"] for c in checks],
                 "kind_free_text": "hand-written explicit-state explorer (BFS with state de-duplication, depth/deviation bounds, 16-worker pool) driving the real forsys code; reference models in fsmc/ref"}],
    "checks": checks,
    "not_applicable": na,
    "notes": "Exit codes: 0 held (KNOWN-FINDING lines possible), 1 VIOLATION, 2 harness error. Known findings: known_findings.json. Seeded property-breaking changes: seeded/<id>/.",
}
json.dump(m, open(os.path.join(ROOT, "MANIFEST.json"), "w"), indent=1)
print("checks:", [c["property_id"] for c in checks], "not_applicable:", [x["property_id"] for x in na])
