import json,glob,collections,sys
pid=sys.argv[1]
by=collections.defaultdict(list)
for f in glob.glob('/verif/violations/%s-*.json'%pid):
    r=json.load(open(f)); v=r["violation"]; by[(v.get("system"),v["what"][:90])].append((f,v))
for k,l in sorted(by.items(), key=lambda x:-len(x[1])):
    print(len(l),k)
    for f,v in l[:int(sys.argv[2]) if len(sys.argv)>2 else 3]:
        print("   ",f.split('/')[-1],json.dumps(v.get("dst"))[:260], json.dumps(v.get("detail") or v.get("example"))[:400])
