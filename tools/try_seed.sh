#!/bin/bash
# usage: tools/try_seed.sh <patch.diff> <tier> <ID> [<ID>...]
# Applies the patch to a SCRATCH WORKTREE of /repo's HEAD (never to /repo itself, so it can run next to anything else),
# runs the checks against it (FORSYS_REPO), removes the worktree. Evidence files are not touched.
VROOT=$(cd "$(dirname "$0")/.." && pwd)
patch=$(realpath "$1"); tier=$2; shift 2
wt=$(mktemp -d /tmp/tryseed.XXXXXX)
rmdir "$wt"
git -C /repo worktree add -q --detach "$wt" HEAD || exit 9
trap 'git -C /repo worktree remove --force "$wt" >/dev/null 2>&1' EXIT
if ! git -C "$wt" apply --whitespace=nowarn "$patch"; then echo "patch does not apply"; exit 9; fi
for id in "$@"; do
  out=$(cd "$VROOT" && FORSYS_REPO="$wt" VERIF_KEEP_EVIDENCE=1 ./check $id $tier 2>&1); rc=$?
  echo "== $id $tier rc=$rc"; echo "$out" | grep -E "VIOLATION|what:|KNOWN-FINDING|HARNESS" | head -8
done
