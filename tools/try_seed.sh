#!/bin/bash
# usage: tools/try_seed.sh <patch.diff> <tier> <ID> [<ID>...]   — applies the patch to /repo, runs the checks, always reverts
patch=$1; tier=$2; shift 2
cd /repo || exit 9
if ! git diff --quiet; then echo "/repo has uncommitted changes; refusing"; exit 9; fi
trap 'git -C /repo checkout -- . ' EXIT
git apply --whitespace=nowarn "$patch" || { echo "patch does not apply"; exit 9; }
for id in "$@"; do
  out=$(cd /verif && VERIF_KEEP_EVIDENCE=1 ./check $id $tier 2>&1); rc=$?
  echo "== $id $tier rc=$rc"; echo "$out" | grep -E "VIOLATION|what:|KNOWN-FINDING|HARNESS" | head -8
done
