#!/bin/bash
# runs every seeded change against its owning check (and the extra checks listed below); writes seeded/MATRIX.txt
cd "$(dirname "$0")/.."
declare -A EXTRA; EXTRA[C02-b]="C10"; EXTRA[C15-b]="C11"; EXTRA[C01-a]="C08"; EXTRA[C03-b]="C13"; EXTRA[C09-b]="C08"
out=seeded/MATRIX.txt; : > $out.tmp
for d in seeded/*/; do
  s=$(basename $d); p=${s:0:3}
  for id in $p ${EXTRA[$s]}; do
    res=$(tools/try_seed.sh $d/patch.diff quick $id 2>&1)
    rc=$(echo "$res" | grep -o "rc=[0-9]*" | head -1)
    what=$(echo "$res" | grep "what:" | head -1 | cut -c1-140)
    echo "$s $id $rc $what" >> $out.tmp
  done
done
{ echo "# seed  check  result (rc=1: caught with a VIOLATION line; rc=0: not caught; rc=2: harness error)  at /repo $(git -C /repo rev-parse --short HEAD), /verif $(git rev-parse --short HEAD)"; cat $out.tmp; } > $out; rm -f $out.tmp
