#!/bin/bash
# usage: try_wave.sh <wave> <pid> [extra check ids...]
w=$1; pid=$2; shift 2
t=$pid-w$w
/verif/tools/try_seed.sh /tmp/seedout/$t/patch.diff quick $pid "$@" > /tmp/seedout/$t/try.log 2>&1
echo "done $t: $(grep -c 'rc=1' /tmp/seedout/$t/try.log) caught"
