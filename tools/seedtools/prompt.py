import json,sys
pid=sys.argv[1]; wt=sys.argv[2]; out=sys.argv[3]
hint=sys.argv[4] if len(sys.argv)>4 else ""
for l in open('/verif/properties.jsonl'):
    p=json.loads(l)
    if p['id']==pid: break
print(f"""You are working on a scratch git worktree of the Python package `forsys` (infers membrane tension / cell pressure from segmented microscopy images) located at {wt}. Work ONLY inside {wt} and {out}. Do NOT read or write anything under /repo or /verif. There is no network.

How to run things: always `cd {wt}` and use `PYTHONPATH={wt} /venv/bin/python ...` so that `import forsys` resolves to {wt}/forsys (check `forsys.__file__` once). The existing test suite is run with:
  cd {wt} && PYTHONPATH={wt} /venv/bin/python -m pytest -q -p no:cacheprovider --timeout=900
(41 tests, about 3 minutes; all pass on the untouched tree.)

Here is a semantic property that the library is supposed to satisfy:

TITLE: {p['title']}
STATEMENT: {p['statement']}
QUANTIFIED OVER: {p['quantifier']['text']}
RELEVANT FILES: {', '.join(p['anchors']['files'])}

YOUR TASK: produce ONE realistic source change to forsys (files under {wt}/forsys/ only; not tests) that BREAKS this property while the package still imports and the whole existing test suite still passes (all 41 tests). It should look like a plausible bug a maintainer could introduce (refactoring slip, off-by-one, wrong index/key, stale or shared state, wrong sign in one branch, a condition slightly too strict/lenient, a cache not invalidated ...), and it should need something SPECIFIC to manifest — an unusual but legitimate input, a particular multi-step sequence of calls, a particular configuration/option combination, or two cooperating sites that each look fine alone — rather than something any ordinary use exposes at once. {hint}

Deliverables, all written to {out}/ :
 1. patch.diff  — output of `git -C {wt} diff` (source files use CRLF line endings: edit only the lines you need with byte-preserving edits so the diff stays small; check `git -C {wt} diff --stat`).
 2. demo.py — a small standalone program (run as `cd {wt} && PYTHONPATH={wt} /venv/bin/python {out}/demo.py`) that builds its own input with the forsys API (Vertex/SmallEdge/Cell/Frame/ForSys etc.; you can look at tests/ and examples/ for how meshes are constructed), exits 0 on the ORIGINAL code and exits non-zero (assertion failure) WITH your change. It must demonstrate a violation of the property as stated, not some unrelated effect.
 3. meta.json — {{"property": "{pid}", "summary": "...what the change does...", "needs_to_manifest": "...", "files_changed": [...], "commands_run": [...], "suite_result_with_change": "N passed", "demo_without_change": "exit 0", "demo_with_change": "exit 1"}}

You MUST actually verify: (a) the full test suite passes with your change applied; (b) demo.py fails with the change; (c) `git stash` (or `git -C {wt} apply -R`) then demo.py passes on the original code; then re-apply your change so the worktree ends with the change applied. Do not commit anything. Keep it to one focused change (a few lines). In your final message report the three file paths and a 3-line summary.""")
