#!/bin/bash
# usage: launch_wave.sh <wave> <pid> "<hint>"
w=$1; pid=$2; hint=$3; t=${pid}-w$w
git -C /repo worktree add -q --detach /tmp/wt/$t HEAD || exit 9
mkdir -p /tmp/seedout/$t
/venv/bin/python /verif/tools/seedtools/prompt.py $pid /tmp/wt/$t /tmp/seedout/$t "$hint" > /tmp/seedout/$t/TASK.md
echo $t
