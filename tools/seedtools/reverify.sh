#!/bin/bash
# usage: reverify.sh <wt> <seed-dir> <patch>  — on worktree <wt> (at /repo HEAD): demo with/without, suite with
wt=$1; sd=$2; patch=$3; log=$sd/reverify.log
cd $wt || exit 9
git checkout -q -- . 
{
echo "HEAD $(git rev-parse --short HEAD)"
echo "== demo without change"; PYTHONPATH=$wt timeout 900 /venv/bin/python $sd/demo.py > /dev/null 2>&1; echo "exit=$?"
git apply --whitespace=nowarn $patch || echo "APPLY FAILED"
git diff --stat | tail -n 1
echo "== demo with change"; PYTHONPATH=$wt timeout 900 /venv/bin/python $sd/demo.py > /dev/null 2>&1; echo "exit=$?"
echo "== suite with change"; PYTHONPATH=$wt timeout 3000 /venv/bin/python -m pytest -q -p no:cacheprovider --timeout=900 2>&1 | tail -n 1
git checkout -q -- .
} > $log 2>&1
cat $log
