#!/bin/bash
wt=/tmp/wt/rb
cd $wt && git checkout -q -- . && git checkout -q --detach $(git -C /repo rev-parse HEAD)
for d in /verif/seeded/*/; do
  s=$(basename $d)
  if git -C $wt apply --check --whitespace=nowarn $d/patch.diff 2>/dev/null; then
    /root/seedtools/reverify.sh $wt $d $d/patch.diff > /dev/null 2>&1
  else
    echo "DOES NOT APPLY at $(git -C /repo rev-parse --short HEAD)" > $d/reverify.log
  fi
  echo "$s: $(tr '\n' ' ' < $d/reverify.log | cut -c1-200)"
done > /root/reverify_all.log 2>&1
