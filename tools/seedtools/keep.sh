#!/bin/bash
# usage: keep.sh <tag> <seed-id>   — copy verified seeded change into /verif/seeded/<seed-id>, remove worktree
t=$1; sid=$2; out=/tmp/seedout/$t; dst=/verif/seeded/$sid
mkdir -p $dst
cp $out/patch.check.diff $dst/patch.diff
cp $out/demo.py $dst/demo.py
/venv/bin/python - "$out" "$dst" "$t" <<'PY'
import json,sys,re
out,dst,t=sys.argv[1:4]
try: meta=json.load(open(out+'/meta.json'))
except Exception as e: meta={"property":t[:3],"summary":"(agent meta.json unreadable: %s)"%e}
log=open(out+'/verify.log').read()
m=re.search(r"(\d+ passed[^\n]*)",log)
ex=re.findall(r"exit=(\d+)",log)
meta["confirmed_by_main_session"]={"worktree":"scratch git worktree of /repo HEAD under /tmp/wt (removed)","suite_with_change":m.group(1) if m else "?","demo_with_change_exit":int(ex[0]),"demo_without_change_exit":int(ex[1]),
  "commands":["PYTHONPATH=<wt> /venv/bin/python demo.py  (with change)","PYTHONPATH=<wt> /venv/bin/python -m pytest -q -p no:cacheprovider --timeout=900","git stash; PYTHONPATH=<wt> /venv/bin/python demo.py; git stash pop"]}
json.dump(meta,open(dst+'/meta.json','w'),indent=1)
print(dst, meta["confirmed_by_main_session"])
PY
git -C /repo worktree remove --force /tmp/wt/$t && rm -rf /tmp/seedout/$t
