#!/bin/bash
# usage: verify.sh <tag> ; worktree /tmp/wt/<tag>, output /tmp/seedout/<tag>; writes /tmp/seedout/<tag>/verify.log
t=$1; wt=/tmp/wt/$t; out=/tmp/seedout/$t
cd $wt || exit 9
{
echo "== diff stat"; git diff --stat
git diff > $out/patch.check.diff
cmp -s <(git diff) $out/patch.diff && echo "patch.diff matches worktree diff" || echo "NOTE patch.diff differs from worktree diff (using worktree diff)"
echo "== demo with change"; PYTHONPATH=$wt timeout 900 /venv/bin/python $out/demo.py > $out/demo_with.log 2>&1; echo "exit=$?"
echo "== suite with change"; PYTHONPATH=$wt timeout 3000 /venv/bin/python -m pytest -q -p no:cacheprovider --timeout=900 2>&1 | tail -3
echo "== demo without change"; git stash -q; PYTHONPATH=$wt timeout 900 /venv/bin/python $out/demo.py > $out/demo_without.log 2>&1; echo "exit=$?"; git stash pop -q
git diff --stat | tail -1
} > $out/verify.log 2>&1
echo "verified $t"
