"""usage: tools/funccov.py <dir written with VERIF_FUNCCOV=<dir>>  — forsys functions never executed by the checks that were run"""
import ast, glob, os, sys
repo = os.environ.get("FORSYS_REPO", "/repo")
seen = set()
for f in glob.glob(os.path.join(sys.argv[1], "*.txt")):
    for l in open(f):
        fn, line, name = l.rstrip("\n").split(":")
        seen.add((fn, name))
for path in sorted(glob.glob(os.path.join(repo, "forsys", "*.py"))):
    fn = os.path.basename(path)
    tree = ast.parse(open(path).read())
    names = []
    for node in ast.walk(tree):
        if isinstance(node, (ast.FunctionDef, ast.AsyncFunctionDef)):
            names.append(node.name)
    missing = sorted({n for n in names if (fn, n) not in seen})
    print("%-22s %3d/%3d executed; never: %s" % (fn, len(set(names)) - len(missing), len(set(names)), ", ".join(missing)))
